//! Contract models of the two std map types the code under verification uses.  CBMC cannot
//! execute std::collections::HashMap / BTreeMap (measured: a 2-entry concrete-key map does not
//! finish in 15 minutes), so under cfg(kani) `planes.rs` and `counters.rs` import these instead.
//!
//! What is KEPT (the assumed contract of std): a finite map with unique keys; `entry(k)` exposes
//! exactly the value stored at `k` (or vacancy); `and_modify` runs the closure on that value
//! only; `or_insert` inserts iff vacant; `retain` keeps exactly the entries whose predicate is
//! true; `iter` visits every entry exactly once (ascending key order for the ordered map).
//! What is DROPPED: hashing, bucket layout, B-tree balancing, capacity management.
//! Rows are boxed: by-value rows of the 500-byte `Plane` under symbolic selection exhaust
//! memory in CBMC (measured 23-30 GB).
#![allow(dead_code)]

pub struct VMap<K, V> {
    pub rows: Vec<Box<(K, V)>>,
}

pub struct VEntry<'a, K, V> {
    map: &'a mut VMap<K, V>,
    key: K,
    idx: Option<usize>,
}

impl<K: PartialEq + Copy, V> VMap<K, V> {
    pub fn new() -> Self {
        VMap { rows: Vec::new() }
    }
    /// Harness constructor: a table of concrete length (keys must be pairwise distinct).
    pub fn from_rows(rows: Vec<Box<(K, V)>>) -> Self {
        VMap { rows }
    }
    fn find(&self, k: &K) -> Option<usize> {
        let mut i = 0;
        while i < self.rows.len() {
            if self.rows[i].0 == *k {
                return Some(i);
            }
            i += 1;
        }
        None
    }
    pub fn len(&self) -> usize {
        self.rows.len()
    }
    pub fn is_empty(&self) -> bool {
        self.rows.is_empty()
    }
    pub fn get(&self, k: &K) -> Option<&V> {
        match self.find(k) {
            Some(i) => Some(&self.rows[i].1),
            None => None,
        }
    }
    pub fn contains_key(&self, k: &K) -> bool {
        self.find(k).is_some()
    }
    pub fn insert(&mut self, k: K, v: V) -> Option<V> {
        match self.find(&k) {
            Some(i) => Some(core::mem::replace(&mut self.rows[i].1, v)),
            None => {
                self.rows.push(Box::new((k, v)));
                None
            }
        }
    }
    pub fn entry(&mut self, k: K) -> VEntry<'_, K, V> {
        let idx = self.find(&k);
        VEntry { map: self, key: k, idx }
    }
    pub fn retain<F: FnMut(&K, &mut V) -> bool>(&mut self, mut f: F) {
        let old = core::mem::take(&mut self.rows);
        let mut kept: Vec<Box<(K, V)>> = Vec::with_capacity(old.len());
        for mut b in old {
            let keep = {
                let (k, v) = &mut *b;
                f(k, v)
            };
            if keep {
                kept.push(b);
            }
        }
        self.rows = kept;
    }
    pub fn shrink_to_fit(&mut self) {}
    pub fn iter(&self) -> impl Iterator<Item = (&K, &V)> {
        self.rows.iter().map(|b| (&b.0, &b.1))
    }
}

impl<'a, K: PartialEq + Copy, V> VEntry<'a, K, V> {
    pub fn and_modify<F: FnOnce(&mut V)>(self, f: F) -> Self {
        if let Some(i) = self.idx {
            f(&mut self.map.rows[i].1);
        }
        self
    }
    pub fn or_insert(self, default: V) -> &'a mut V {
        match self.idx {
            Some(i) => &mut self.map.rows[i].1,
            None => {
                self.map.rows.push(Box::new((self.key, default)));
                let n = self.map.rows.len();
                &mut self.map.rows[n - 1].1
            }
        }
    }
}

/// Ordered map model (BTreeMap<u32, i32> in counters.rs): association list kept sorted by key.
pub struct VOrdMap<K, V> {
    pub rows: Vec<(K, V)>,
}

pub struct VOrdEntry<'a, K, V> {
    map: &'a mut VOrdMap<K, V>,
    key: K,
    idx: Result<usize, usize>, // Ok(position) | Err(insertion point)
}

impl<K: PartialOrd + Copy, V> VOrdMap<K, V> {
    pub fn new() -> Self {
        VOrdMap { rows: Vec::new() }
    }
    pub fn from_rows(rows: Vec<(K, V)>) -> Self {
        VOrdMap { rows }
    }
    fn find(&self, k: &K) -> Result<usize, usize> {
        let mut i = 0;
        while i < self.rows.len() {
            if self.rows[i].0 == *k {
                return Ok(i);
            }
            if self.rows[i].0 > *k {
                return Err(i);
            }
            i += 1;
        }
        Err(i)
    }
    pub fn len(&self) -> usize {
        self.rows.len()
    }
    pub fn get(&self, k: &K) -> Option<&V> {
        match self.find(k) {
            Ok(i) => Some(&self.rows[i].1),
            Err(_) => None,
        }
    }
    pub fn entry(&mut self, k: K) -> VOrdEntry<'_, K, V> {
        let idx = self.find(&k);
        VOrdEntry { map: self, key: k, idx }
    }
    pub fn iter(&self) -> impl Iterator<Item = (&K, &V)> {
        self.rows.iter().map(|b| (&b.0, &b.1))
    }
}

impl<'a, K: PartialOrd + Copy, V> VOrdEntry<'a, K, V> {
    pub fn or_insert(self, default: V) -> &'a mut V {
        match self.idx {
            Ok(i) => &mut self.map.rows[i].1,
            Err(at) => {
                self.map.rows.insert(at, (self.key, default));
                &mut self.map.rows[at].1
            }
        }
    }
    pub fn and_modify<F: FnOnce(&mut V)>(self, f: F) -> Self {
        if let Ok(i) = self.idx {
            f(&mut self.map.rows[i].1);
        }
        self
    }
}
