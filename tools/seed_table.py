#!/usr/bin/env python3
"""Rewrites the seeded-changes table at the end of DESIGN.md from seeded/*/meta.json."""
import json, glob, os, re
rows = []
for m in sorted(glob.glob('/verif/seeded/*/meta.json')):
    d = json.load(open(m))
    rows.append((os.path.basename(os.path.dirname(m)), d['property'], d['change'], d['needs_to_manifest'], d.get('detected_by', '')))
out = ["", "| seeded change (seeded/<dir>) | property | change | needs to manifest | caught by (quick tier) |", "|---|---|---|---|---|"]
for r in rows:
    out.append("| %s | %s | %s | %s | %s |" % tuple(x.replace('|', '/') for x in r))
s = open('/verif/DESIGN.md').read()
marker = "## 11. Seeded changes"
i = s.index(marker)
head = s[:i] + marker + "\n\n" + ("Two kinds: `agent_*` - written by independent sub-agents that were given only the property text and a scratch worktree "
    "of /repo (nothing from /verif), each confirmed here by `tools/confirm_seed.sh` (compiles, 66/66 suite tests pass with the change, the agent's demonstration "
    "fails with the change and passes without); `revert_*` - the reverse of one of this repository's own `fix:` commits, i.e. a defect of the pinned tree re-seeded. "
    "Checks are run on a scratch copy with the patch applied (`bin/vcheck <property> --patch seeded/<dir>/patch.diff --no-evidence`, equivalent to "
    "`git -C /repo apply` + check + `git -C /repo checkout -- .`). 'caught by' lists the obligations that reported VIOLATION.\n")
open('/verif/DESIGN.md', 'w').write(head + "\n".join(out) + "\n")
print(len(rows), "rows")
