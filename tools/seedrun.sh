#!/bin/bash
# usage: seedrun.sh <seed dir> <property> [more properties...]  -- runs the quick check(s) on a scratch copy with the seeded patch
d=$1; shift
for p in "$@"; do
  echo "=== $(basename $d) vs $p"
  /verif/bin/vcheck $p --tier quick --patch $d/patch.diff --no-evidence 2>&1 | grep -E "^(VIOLATION|OK|UNDECIDED|KNOWN-FINDING)|^    obligation|failing frame" | grep -v "KNOWN-FINDING" | head -12
done
