#!/bin/bash
# usage: seedrun_fast.sh <seed dir> <property>  -- detection only (no replay)
d=$1; p=$2
echo "=== $(basename $d) vs $p"
/verif/bin/vcheck $p --tier quick --patch $d/patch.diff --no-evidence --no-replay 2>&1 | grep -E "^(VIOLATION|OK|UNDECIDED)|^    obligation" | head -14
