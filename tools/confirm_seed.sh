#!/bin/bash
# usage: confirm_seed.sh <id> <dir with patch.diff + demo.rs>   -> confirms: compiles, 66 tests pass with change, demo fails with / passes without
id=$1; src=$2; wt=/tmp/confirm_$id
git -C /repo worktree add --detach $wt HEAD -q || exit 1
cd $wt
git apply $src/patch.diff || { echo "PATCH DOES NOT APPLY"; exit 1; }
t1=$(cargo test --offline --lib 2>&1 | grep "test result" | head -1)
mkdir -p tests; cp $src/demo.rs tests/demo.rs
d1=$(cargo test --offline --test demo 2>&1 | grep "test result" | head -1)
git apply -R $src/patch.diff
d0=$(cargo test --offline --test demo 2>&1 | grep "test result" | head -1)
t0=$(cargo test --offline --lib 2>&1 | grep "test result" | head -1)
echo "[$id] suite with change : $t1"
echo "[$id] demo  with change : $d1"
echo "[$id] demo  without     : $d0"
echo "[$id] suite without     : $t0"
cd /; git -C /repo worktree remove --force $wt
