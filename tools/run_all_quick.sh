#!/bin/bash
# regenerates every evidence file from /verif against /repo (quick tier), sequentially
cd /verif
for p in C01 C02 C03 C04 C05 C06 C07 C08 C09 C10 C11 C12 C13 C14 C15 C16 C17 C19; do
  echo "=== $p $(date +%H:%M:%S)"
  bin/vcheck $p --tier quick 2>&1 | grep -E "^(VIOLATION|OK|UNDECIDED|KNOWN-FINDING)|kani group" | cut -c1-220
  echo "exit=$?"
done
