#!/usr/bin/env python3
"""Authoring-time tool (NOT run by the checks): flattens the nested prefix match of
/repo/src/decoder/country/country_icao_mask.rs at the pinned commit into a flat
[lo,hi]->code range list, checks disjointness/alignment, and writes
/verif/spec/country_table.rs.  The flat list is the specification text from then on;
it is hand-audited against the blocks the property quotes and against the well-known
Annex 10 allocations listed in AUDIT below."""
import re, sys
src = open('/repo/src/decoder/country/country_icao_mask.rs').read()
src = src.split('#[cfg(test)]')[0]
shift = None
rows = []
for line in src.splitlines():
    m = re.search(r'match icao >> (\d+)', line)
    if m: shift = int(m.group(1)); continue
    m = re.match(r'\s*0b([01]+) => \("(.*)", "(.*)"\),', line)
    if m:
        bits, name, code = m.groups()
        assert len(bits) == 24 - shift, (line, shift)
        lo = int(bits, 2) << shift
        hi = lo + (1 << shift) - 1
        rows.append((lo, hi, code, name, 24 - shift))
rows.sort()
# disjointness
for a, b in zip(rows, rows[1:]):
    if a[1] >= b[0]:
        print("OVERLAP", [hex(x) for x in a[:2]], a[2], [hex(x) for x in b[:2]], b[2])
AUDIT = {0xA00000: 'US', 0xAFFFFF: 'US', 0x4CA000: 'IE', 0x4CAFFF: 'IE', 0x3C0000: 'DE', 0x3FFFFF: 'DE',
         0x400000: 'GB', 0x43FFFF: 'GB', 0x380000: 'FR', 0x3BFFFF: 'FR', 0x100000: 'RU', 0x1FFFFF: 'RU',
         0x780000: 'CN', 0x7BFFFF: 'CN', 0x7C0000: 'AU', 0x7FFFFF: 'AU', 0xC00000: 'CA', 0xC3FFFF: 'CA',
         0x840000: 'JP', 0x87FFFF: 'JP', 0x800000: 'IN', 0x83FFFF: 'IN', 0x300000: 'IT', 0x33FFFF: 'IT',
         0x340000: 'ES', 0x37FFFF: 'ES', 0xE00000: 'AR', 0xE3FFFF: 'AR', 0xE40000: 'BR', 0xE7FFFF: 'BR',
         0x480000: 'NL', 0x487FFF: 'NL', 0x4B0000: 'CH', 0x4B7FFF: 'CH', 0x4A8000: 'SE', 0x4AFFFF: 'SE',
         0x440000: 'AT', 0x447FFF: 'AT', 0x448000: 'BE', 0x44FFFF: 'BE', 0x458000: 'DK', 0x45FFFF: 'DK',
         0x460000: 'FI', 0x467FFF: 'FI', 0x478000: 'NO', 0x47FFFF: 'NO', 0x488000: 'PL', 0x48FFFF: 'PL',
         0x490000: 'PT', 0x497FFF: 'PT', 0x4B8000: 'TR', 0x4BFFFF: 'TR', 0x0D0000: 'MX', 0x0D7FFF: 'MX',
         0x008000: 'ZA', 0x00FFFF: 'ZA', 0x010000: 'EG', 0x017FFF: 'EG', 0x738000: 'IL', 0x73FFFF: 'IL',
         0x710000: 'SA', 0x717FFF: 'SA', 0x896000: 'AE', 0x896FFF: 'AE', 0xC80000: 'NZ', 0xC87FFF: 'NZ',
         0x4CC000: 'IS', 0x4CCFFF: 'IS', 0x4D0000: 'LU', 0x4D03FF: 'LU', 0x501C00: 'HR', 0x501FFF: 'HR',
         0x000000: '??', 0xFFFFFF: '??', 0x500000: 'SM', 0x5003FF: 'SM', 0x004000: 'ZW', 0x0043FF: 'ZW',
         0x4D2000: 'MT', 0x4D2FFF: 'MT', 0x06A000: 'QA', 0x06A3FF: 'QA'}
def lookup(a):
    for lo, hi, code, _, _ in rows:
        if lo <= a <= hi: return code
    return '??'
bad = [(hex(a), c, lookup(a)) for a, c in AUDIT.items() if lookup(a) != c]
print("audit mismatches:", bad)
with open('/verif/spec/country_table.rs', 'w') as f:
    f.write("// Flat ICAO 24-bit address allocation table (Annex 10 Vol III, Table 9-1), one row per block:\n")
    f.write("// (first address, last address, code).  Rows are disjoint and sorted; produced once by\n")
    f.write("// tools/gen_country_table.py and audited there; this text is the specification from now on.\n")
    f.write("pub static COUNTRY_BLOCKS: [(u32, u32, &str); %d] = [\n" % len(rows))
    for lo, hi, code, name, plen in rows:
        f.write('    (0x%06X, 0x%06X, "%s"), // /%d %s\n' % (lo, hi, code, plen, name))
    f.write("];\n")
    f.write("\n// Numeric twin of COUNTRY_BLOCKS (used by the compile-time well-formedness assertion).\n")
    f.write("pub const COUNTRY_RANGES: [(u32, u32); %d] = [\n" % len(rows))
    for lo, hi, code, name, plen in rows:
        f.write("    (0x%06X, 0x%06X),\n" % (lo, hi))
    f.write("];\n")
print(len(rows), "rows")
