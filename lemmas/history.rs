//@props C03,C04,C11,C12,C13,C16
// History layer (DESIGN 4, L5): from the one-step contracts discharged by Kani on the real code
// to the statements quantified over all histories.  Spec text only - no /repo code in here.
//
// One-step contracts used as the definition of `apply` below (each is a Kani obligation):
//   L4.line.rejected  : a line that is not taken as a frame causes no table/counter operation
//   L4.line.accepted.*: zero address or DF outside -f -> nothing; else count(df) iff -c, then
//                       update_aircraft(frame, df, address), then cleanup
//   L3.table.update_aircraft.*: only the row of that address is touched; created iff absent
//   L3.table.cleanup.*: sweep iff counter > 10 ... counter' = 1, else counter + 1
use vstd::prelude::*;
use vstd::map::*;
use vstd::seq::*;

verus! {

pub struct Line { pub accepted: bool, pub addr: int, pub df: int, pub payload: int }
pub struct Row { pub v: int }

pub uninterp spec fn row_step(r: Row, l: Line) -> Row;   // L2.* : effect of a frame on its row
pub uninterp spec fn row_create(l: Line) -> Row;         // L2.create.*

pub open spec fn applies(l: Line) -> bool { l.accepted && l.addr != 0 }

/// one loop iteration on the table (sweep ignored here: it is a function of time, see below)
pub open spec fn apply(t: Map<int, Row>, l: Line) -> Map<int, Row> {
    if applies(l) {
        if t.dom().contains(l.addr) { t.insert(l.addr, row_step(t[l.addr], l)) }
        else { t.insert(l.addr, row_create(l)) }
    } else { t }
}

pub open spec fn fold(h: Seq<Line>) -> Map<int, Row>
    decreases h.len()
{
    if h.len() == 0 { Map::empty() } else { apply(fold(h.drop_last()), h.last()) }
}

/// the subsequence of lines that are applied
pub open spec fn applied_only(h: Seq<Line>) -> Seq<Line>
    decreases h.len()
{
    if h.len() == 0 { Seq::empty() }
    else if applies(h.last()) { applied_only(h.drop_last()).push(h.last()) }
    else { applied_only(h.drop_last()) }
}

/// the subsequence of applied lines of one aircraft
pub open spec fn of_addr(h: Seq<Line>, k: int) -> Seq<Line>
    decreases h.len()
{
    if h.len() == 0 { Seq::empty() }
    else if applies(h.last()) && h.last().addr == k { of_addr(h.drop_last(), k).push(h.last()) }
    else { of_addr(h.drop_last(), k) }
}

// C13 / C04 / C02: the table produced from a stream equals the table produced from the
// subsequence of its accepted lines - unusable lines affect nothing but themselves.
pub proof fn lemma_rejected_lines_are_noops(h: Seq<Line>)
    ensures fold(h) == fold(applied_only(h))
    decreases h.len()
{
    if h.len() == 0 {
    } else {
        lemma_rejected_lines_are_noops(h.drop_last());
        if applies(h.last()) {
            let a = applied_only(h.drop_last()).push(h.last());
            assert(a.drop_last() == applied_only(h.drop_last()));
            assert(a.last() == h.last());
        }
    }
}

// C03 / C11: a row is a function of the frames of its own address only (no cross-talk between
// aircraft, any interleaving), and the table never holds a row for an address that was not heard.
pub proof fn lemma_rows_isolated(h: Seq<Line>, k: int)
    ensures
        fold(h).dom().contains(k) == fold(of_addr(h, k)).dom().contains(k),
        fold(h).dom().contains(k) ==> fold(h)[k] == fold(of_addr(h, k))[k],
        fold(h).dom().contains(k) ==> of_addr(h, k).len() > 0,
    decreases h.len()
{
    if h.len() == 0 {
    } else {
        let p = h.drop_last();
        let l = h.last();
        lemma_rows_isolated(p, k);
        if applies(l) && l.addr == k {
            let a = of_addr(p, k).push(l);
            assert(a.drop_last() == of_addr(p, k));
            assert(a.last() == l);
        } else if applies(l) {
            // another aircraft's frame: row k untouched
            assert(fold(h).dom().contains(k) == fold(p).dom().contains(k));
        }
    }
}

// C16: with -c the counter of a DF is exactly the number of applied lines of that DF that
// passed the filter (filter folded into `applies` by the caller).
pub open spec fn counts(h: Seq<Line>, df: int) -> int
    decreases h.len()
{
    if h.len() == 0 { 0 }
    else { counts(h.drop_last(), df) + if applies(h.last()) && h.last().df == df { 1int } else { 0int } }
}
pub open spec fn counter_step(c: Map<int, int>, l: Line) -> Map<int, int> {
    if applies(l) { c.insert(l.df, if c.dom().contains(l.df) { c[l.df] + 1 } else { 1 }) } else { c }
}
pub open spec fn counter_fold(h: Seq<Line>) -> Map<int, int>
    decreases h.len()
{
    if h.len() == 0 { Map::empty() } else { counter_step(counter_fold(h.drop_last()), h.last()) }
}
pub proof fn lemma_counters_exact(h: Seq<Line>, df: int)
    ensures
        counter_fold(h).dom().contains(df) <==> counts(h, df) > 0,
        counter_fold(h).dom().contains(df) ==> counter_fold(h)[df] == counts(h, df),
        counts(h, df) >= 0,
    decreases h.len()
{
    if h.len() > 0 {
        lemma_counters_exact(h.drop_last(), df);
    }
}

// C12: the sweep counter (L3.table.cleanup: if c > 10 { sweep; c = 0 }; c = c + 1) stays
// within 0..=11 and a sweep happens within 12 applied frames from any reachable state.
pub open spec fn counter_next(c: int) -> int { if c > 10 { 1 } else { c + 1 } }
pub open spec fn sweeps(c: int) -> bool { c > 10 }
pub open spec fn iterate(c: int, n: nat) -> int
    decreases n
{
    if n == 0 { c } else { counter_next(iterate(c, (n - 1) as nat)) }
}
pub proof fn lemma_counter_invariant(c: int, n: nat)
    requires 0 <= c <= 11
    ensures 0 <= iterate(c, n) <= 11
    decreases n
{
    if n > 0 { lemma_counter_invariant(c, (n - 1) as nat); }
}
pub proof fn lemma_sweep_within_12(c: int)
    requires 0 <= c <= 11
    ensures exists|i: nat| i < 12 && sweeps(iterate(c, i))
{
    // after (11 - c) frames the counter is 11, i.e. the next frame sweeps
    let i = (11 - c) as nat;
    lemma_iterate_linear(c, i);
    assert(iterate(c, i) == 11);
    assert(i < 12 && sweeps(iterate(c, i)));
}
pub proof fn lemma_iterate_linear(c: int, n: nat)
    requires 0 <= c, c + n <= 11
    ensures iterate(c, n) == c + n
    decreases n
{
    if n > 0 { lemma_iterate_linear(c, (n - 1) as nat); }
}

// C11 latest-carrier: if the step contract says a frame of a carrier format sets parameter P
// to decode(frame) and every other frame leaves P alone, then after any history P is the value
// decoded from the most recent carrier frame of that aircraft (or the creation default).
pub uninterp spec fn carries(l: Line) -> bool;
pub uninterp spec fn decode(l: Line) -> int;
pub uninterp spec fn param(r: Row) -> int;
pub uninterp spec fn blank() -> int;

pub open spec fn step_contract() -> bool {
    &&& forall|r: Row, l: Line| carries(l) ==> param(#[trigger] row_step(r, l)) == decode(l)
    &&& forall|r: Row, l: Line| !carries(l) ==> param(#[trigger] row_step(r, l)) == param(r)
    &&& forall|l: Line| carries(l) ==> param(#[trigger] row_create(l)) == decode(l)
    &&& forall|l: Line| !carries(l) ==> param(#[trigger] row_create(l)) == blank()
}
pub open spec fn latest(h: Seq<Line>, k: int) -> int
    decreases h.len()
{
    if h.len() == 0 { blank() }
    else if applies(h.last()) && h.last().addr == k && carries(h.last()) { decode(h.last()) }
    else { latest(h.drop_last(), k) }
}
pub proof fn lemma_latest_carrier(h: Seq<Line>, k: int)
    requires step_contract()
    ensures fold(h).dom().contains(k) ==> param(fold(h)[k]) == latest(h, k)
    decreases h.len()
{
    if h.len() > 0 {
        lemma_latest_carrier(h.drop_last(), k);
        lemma_rows_isolated(h.drop_last(), k);
        lemma_blank_until_heard(h.drop_last(), k);
    }
}
pub proof fn lemma_blank_until_heard(h: Seq<Line>, k: int)
    ensures !fold(h).dom().contains(k) ==> latest(h, k) == blank()
    decreases h.len()
{
    if h.len() > 0 {
        lemma_blank_until_heard(h.drop_last(), k);
    }
}

} // verus!
fn main() {}
