//! C08: CPR global decode of an even/odd airborne position pair (ICAO Doc 9684 / DO-260B A.1.7).
//! NL boundaries are computed from the defining formula
//!   lat_NL = (180/pi) * acos( sqrt( (1 - cos(pi/30)) / (1 - cos(2*pi/NL)) ) ),  NL = 2..59
//! (tools/gen: python, rounded to 8 decimals as published), NOT copied from /repo.

/// (NL value, smallest |latitude| at which the zone count drops BELOW this value... ) i.e.
/// NL(lat) = v for the first row with |lat| < boundary, 1 at and above 87 degrees.
pub static NL_BOUNDS: [(f64, i32); 58] = [
    (10.47047130, 59),
    (14.82817437, 58),
    (18.18626357, 57),
    (21.02939493, 56),
    (23.54504487, 55),
    (25.82924707, 54),
    (27.93898710, 53),
    (29.91135686, 52),
    (31.77209708, 51),
    (33.53993436, 50),
    (35.22899598, 49),
    (36.85025108, 48),
    (38.41241892, 47),
    (39.92256684, 46),
    (41.38651832, 45),
    (42.80914012, 44),
    (44.19454951, 43),
    (45.54626723, 42),
    (46.86733252, 41),
    (48.16039128, 40),
    (49.42776439, 39),
    (50.67150166, 38),
    (51.89342469, 37),
    (53.09516153, 36),
    (54.27817472, 35),
    (55.44378444, 34),
    (56.59318756, 33),
    (57.72747354, 32),
    (58.84763776, 31),
    (59.95459277, 30),
    (61.04917774, 29),
    (62.13216659, 28),
    (63.20427479, 27),
    (64.26616523, 26),
    (65.31845310, 25),
    (66.36171008, 24),
    (67.39646774, 23),
    (68.42322022, 22),
    (69.44242631, 21),
    (70.45451075, 20),
    (71.45986473, 19),
    (72.45884545, 18),
    (73.45177442, 17),
    (74.43893416, 16),
    (75.42056257, 15),
    (76.39684391, 14),
    (77.36789461, 13),
    (78.33374083, 12),
    (79.29428225, 11),
    (80.24923213, 10),
    (81.19801349, 9),
    (82.13956981, 8),
    (83.07199445, 7),
    (83.99173563, 6),
    (84.89166191, 5),
    (85.75541621, 4),
    (86.53536998, 3),
    (87.00000000, 2),
];

/// Number of longitude zones at a latitude: 59 at the equator, minus one for every boundary at or
/// below |lat| (counting formulation; 1 at and beyond 87 degrees).
pub fn spec_nl(lat: f64) -> i32 {
    let a = if lat < 0.0 { -lat } else { lat };
    let mut n = 59;
    let mut i = 0;
    while i < 58 {
        if a >= NL_BOUNDS[i].0 {
            n -= 1;
        }
        i += 1;
    }
    n
}

pub const TWO17: f64 = 131072.0;

/// Positive modulo on integral floats.
fn fmod_pos(x: f64, m: f64) -> f64 {
    let r = super::h::frem(x, m);
    if r < 0.0 { r + m } else { r }
}

/// Latitude zone index j = floor((59*lat0 - 60*lat1)/2^17 + 1/2) - exact in integers.
pub fn spec_j(lat0: u32, lat1: u32) -> i64 {
    let num = 59 * lat0 as i64 - 60 * lat1 as i64 + 65536;
    num.div_euclid(131072)
}

/// Recovered latitudes (even, odd) of the published algorithm: Dlat_i * (mod(j, 60 - i) + lat_i/2^17),
/// southern hemisphere values (>= 270) brought to [-90, 0).
pub fn spec_rlat(lat0: u32, lat1: u32) -> (f64, f64) {
    let j = spec_j(lat0, lat1) as f64;
    let mut r0 = 6.0 * (fmod_pos(j, 60.0) + lat0 as f64 / TWO17);
    let mut r1 = (360.0 / 59.0) * (fmod_pos(j, 59.0) + lat1 as f64 / TWO17);
    if r0 >= 270.0 {
        r0 -= 360.0;
    }
    if r1 >= 270.0 {
        r1 -= 360.0;
    }
    (r0, r1)
}

/// Longitude zone index m = floor((lon0*(NL-1) - lon1*NL)/2^17 + 1/2) - exact in integers.
pub fn spec_m(lon0: u32, lon1: u32, nl: i32) -> i64 {
    let num = lon0 as i64 * (nl as i64 - 1) - lon1 as i64 * nl as i64 + 65536;
    num.div_euclid(131072)
}

/// Recovered longitude of the frame with parity `form`, in [-180, 180).
pub fn spec_rlon(lon0: u32, lon1: u32, nl: i32, form: u32) -> f64 {
    let ni = if nl - form as i32 > 1 { nl - form as i32 } else { 1 };
    let m = spec_m(lon0, lon1, nl);
    let mm = m.rem_euclid(ni as i64);
    let lon_i = if form == 1 { lon1 } else { lon0 };
    let lon = (360.0 / ni as f64) * (mm as f64 + lon_i as f64 / TWO17);
    if lon >= 180.0 { lon - 360.0 } else { lon }
}

pub fn close(a: f64, b: f64) -> bool {
    let d = a - b;
    d < 1e-9 && d > -1e-9
}

// (the sample vectors of C08.cpr_location.samples.* are in spec/cpr_samples.rs and are inlined as literals into contracts/C08_position.rs)
