//! C08: CPR global decode (filled in with the position contracts).
