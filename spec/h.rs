//! Harness helpers shared by all proof harnesses (only meaningful under cfg(kani)).
#[cfg(kani)]
pub fn any_frame28() -> [u32; 28] {
    let m: [u32; 28] = kani::any();
    let mut i = 0;
    while i < 28 {
        kani::assume(m[i] < 16);
        i += 1;
    }
    m
}
#[cfg(kani)]
pub fn any_frame14() -> [u32; 14] {
    let m: [u32; 14] = kani::any();
    let mut i = 0;
    while i < 14 {
        kani::assume(m[i] < 16);
        i += 1;
    }
    m
}
/// Force bits sb..=eb (1-based) of a frame to `v` (used to pin DF/TC in a harness region
/// without an assume, so that counterexample frames are always in-region).
pub fn set_bits(m: &mut [u32], sb: u32, eb: u32, v: u32) {
    let mut p = sb;
    while p <= eb {
        let b = (v >> (eb - p)) & 1;
        let idx = ((p - 1) / 4) as usize;
        let sh = 3 - ((p - 1) % 4);
        m[idx] = (m[idx] & !(1 << sh)) | (b << sh);
        p += 1;
    }
}

/// Element-wise slice equality (keeps the verifier away from memcmp and its byte-count unwinding).
pub fn slices_eq(a: &[u32], b: &[u32]) -> bool {
    if a.len() != b.len() {
        return false;
    }
    let mut i = 0;
    while i < a.len() {
        if a[i] != b[i] {
            return false;
        }
        i += 1;
    }
    true
}

/// Byte-wise string equality (keeps the verifier away from memcmp on symbolic pointers).
pub fn str_eq(a: &str, b: &str) -> bool {
    let (a, b) = (a.as_bytes(), b.as_bytes());
    if a.len() != b.len() {
        return false;
    }
    let mut i = 0;
    while i < a.len() {
        if a[i] != b[i] {
            return false;
        }
        i += 1;
    }
    true
}

/// Symbolic clock: an arbitrary instant of year 2026 (division-free construction, see DESIGN 3.2-5).
#[cfg(kani)]
pub fn stub_now() -> chrono::DateTime<chrono::Utc> {
    let day: u32 = kani::any();
    let sec: u32 = kani::any();
    kani::assume(day >= 1 && day <= 365);
    kani::assume(sec < 86_400);
    mk_time(day, sec)
}
/// The same with a sub-second part (the sweep compares WHOLE seconds of a difference of two
/// instants that both have fractions).
#[cfg(kani)]
pub fn mk_time_ns(day: u32, sec: u32, nano: u32) -> chrono::DateTime<chrono::Utc> {
    let d = chrono::NaiveDate::from_yo_opt(2026, day).unwrap();
    let t = chrono::NaiveTime::from_num_seconds_from_midnight_opt(sec, nano).unwrap();
    chrono::DateTime::<chrono::Utc>::from_naive_utc_and_offset(chrono::NaiveDateTime::new(d, t), chrono::Utc)
}
#[cfg(kani)]
pub fn mk_time(day: u32, sec: u32) -> chrono::DateTime<chrono::Utc> {
    let d = chrono::NaiveDate::from_yo_opt(2026, day).unwrap();
    let t = chrono::NaiveTime::from_num_seconds_from_midnight_opt(sec, 0).unwrap();
    chrono::DateTime::<chrono::Utc>::from_naive_utc_and_offset(chrono::NaiveDateTime::new(d, t), chrono::Utc)
}

/// Float remainder with the sign of the dividend (what Rust's `%` on f64 computes), written
/// with operations CBMC models exactly.  Equal to IEEE fmod whenever x/y is exactly
/// representable after truncation, in particular for integral x, y below 2^53.
/// Needed because CBMC 6.11 mis-models the f64 `%` operator (measured: 359.0 % 360.0 == 0.0).
pub fn frem(x: f64, y: f64) -> f64 {
    x - y * (x / y).trunc()
}
