//! Frame = vector of 14 or 28 hex-digit values (one nibble per element), bit 1 = MSB of
//! element 0 (Mode S bit numbering, 1-based, big-endian).

/// Type invariant of a frame as `get_message` hands it on.
pub fn valid_msg(m: &[u32]) -> bool {
    if m.len() != 14 && m.len() != 28 {
        return false;
    }
    let mut i = 0;
    while i < m.len() {
        if m[i] >= 16 {
            return false;
        }
        i += 1;
    }
    true
}

/// Bit `p` (1-based) of the frame.
pub fn bit(m: &[u32], p: u32) -> u32 {
    let idx = ((p - 1) / 4) as usize;
    let sh = 3 - ((p - 1) % 4);
    (m[idx] >> sh) & 1
}

/// Big-endian value of bits `sb..=eb` (1-based, inclusive), `eb - sb < 32`.
pub fn bits(m: &[u32], sb: u32, eb: u32) -> u32 {
    let mut v: u32 = 0;
    let mut p = sb;
    while p <= eb {
        v = (v << 1) | bit(m, p);
        p += 1;
    }
    v
}

/// Downlink format = first five bits.
pub fn df_of(m: &[u32]) -> u32 {
    bits(m, 1, 5)
}

/// Frame length agrees with its downlink format (DF 0-15: 56 bits, DF 16-31: 112 bits).
pub fn agree(m: &[u32]) -> bool {
    (df_of(m) >= 16) == (m.len() == 28)
}

/// Type code and sub-type of an extended squitter ME field (bits 33-37, 38-40).
pub fn tc_of(m: &[u32]) -> u32 {
    bits(m, 33, 37)
}
pub fn st_of(m: &[u32]) -> u32 {
    bits(m, 38, 40)
}
/// CA field of DF11/17/18 (bits 6-8).
pub fn ca_of(m: &[u32]) -> u32 {
    bits(m, 6, 8)
}

/// Surveillance status of an airborne position squitter (bits 38-39): N no condition,
/// P permanent alert, T temporary alert, S SPI.
pub fn spec_surveillance_status(m: &[u32]) -> char {
    match bits(m, 38, 39) {
        0 => 'N',
        1 => 'P',
        2 => 'T',
        _ => 'S',
    }
}
