//! C06 squawk (ID13), C07 callsign (IA5 subset) and wake-class letter.
use super::bits::*;

/// ID13 field = bits 20..32 in the order C1 A1 C2 A2 C4 A4 X B1 D1 B2 D2 B4 D4.
/// Squawk = four octal digits A B C D, returned as the decimal number 1000A+100B+10C+D.
pub fn spec_squawk(m: &[u32]) -> u32 {
    let c1 = bit(m, 20);
    let a1 = bit(m, 21);
    let c2 = bit(m, 22);
    let a2 = bit(m, 23);
    let c4 = bit(m, 24);
    let a4 = bit(m, 25);
    let b1 = bit(m, 27);
    let d1 = bit(m, 28);
    let b2 = bit(m, 29);
    let d2 = bit(m, 30);
    let b4 = bit(m, 31);
    let d4 = bit(m, 32);
    let a = a4 * 4 + a2 * 2 + a1;
    let b = b4 * 4 + b2 * 2 + b1;
    let c = c4 * 4 + c2 * 2 + c1;
    let d = d4 * 4 + d2 * 2 + d1;
    1000 * a + 100 * b + 10 * c + d
}

/// IA5 subset of the aircraft-identification character set: 1-26 -> 'A'-'Z', 48-57 -> '0'-'9',
/// every other code is omitted (None).
pub fn spec_ia5(c: u32) -> Option<u8> {
    if c >= 1 && c <= 26 {
        Some(b'A' + (c as u8) - 1)
    } else if c >= 48 && c <= 57 {
        Some(c as u8)
    } else {
        None
    }
}

/// Callsign: the eight 6-bit characters of bits 41..88 in order, unmapped codes omitted.
/// Returned as (bytes, length).
pub fn spec_callsign(m: &[u32]) -> ([u8; 8], usize) {
    let mut out = [0u8; 8];
    let mut n = 0usize;
    let mut k = 0u32;
    while k < 8 {
        let c = bits(m, 41 + 6 * k, 46 + 6 * k);
        if let Some(ch) = spec_ia5(c) {
            out[n] = ch;
            n += 1;
        }
        k += 1;
    }
    (out, n)
}

/// Wake class letter from the emitter category (type code, category).
pub fn spec_wake(tc: u32, ca: u32) -> Option<char> {
    if tc != 4 {
        return None;
    }
    match ca {
        1 => Some('L'),
        2 => Some('S'),
        3 => Some('M'),
        4 => Some('H'),
        5 => Some('J'),
        7 => Some('R'),
        _ => None,
    }
}

/// Postcondition of the callsign decoder: a value is always produced and it is exactly the
/// specified character sequence.
pub fn callsign_ok(m: &[u32], r: &Option<String>) -> bool {
    match r {
        None => false,
        Some(s) => {
            let (exp, n) = spec_callsign(m);
            let b = s.as_bytes();
            if b.len() != n {
                return false;
            }
            let mut i = 0;
            while i < n {
                if b[i] != exp[i] {
                    return false;
                }
                i += 1;
            }
            true
        }
    }
}
