//! C10: Comm-B registers (filled in with the Comm-B contracts).
