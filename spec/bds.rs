//! C10: Comm-B registers BDS 1,7 / 4,0 / 5,0 / 6,0 (ICAO Doc 9871 Table A-2-x), MB field =
//! bits 33..88 of a DF20/21 reply.
use super::bits::*;

fn b(m: &[u32], p: u32) -> bool {
    bit(m, p) == 1
}
/// two's complement value of a sign bit and an n-bit magnitude field
fn twos(sign: u32, raw: u32, nbits: u32) -> i32 {
    raw as i32 - if sign == 1 { 1i32 << nbits } else { 0 }
}

// ------------------------------------------------------------------ BDS 4,0
/// status bits of the three displayed fields all set (MCP/FCU altitude, FMS altitude, baro setting)
pub fn status_40(m: &[u32]) -> bool {
    b(m, 33) && b(m, 46) && b(m, 59)
}
/// reserved bits 72-79 and 84-85 zero
pub fn reserved_zero_40(m: &[u32]) -> bool {
    bits(m, 72, 79) == 0 && bits(m, 84, 85) == 0
}
pub fn mcp_alt_40(m: &[u32]) -> u32 {
    bits(m, 34, 45) * 16
}
pub fn fms_alt_40(m: &[u32]) -> u32 {
    bits(m, 47, 58) * 16
}
/// barometric pressure setting in whole mb: raw*0.1 + 800, truncated
pub fn baro_40(m: &[u32]) -> u32 {
    bits(m, 60, 71) / 10 + 800
}
pub fn plausible_40(m: &[u32]) -> bool {
    status_40(m) && reserved_zero_40(m) && bits(m, 34, 45) != 0 && bits(m, 47, 58) != 0 && bits(m, 60, 71) != 0
        && baro_40(m) <= 1210
}

// ------------------------------------------------------------------ BDS 5,0
pub fn status_50(m: &[u32]) -> bool {
    b(m, 33) && b(m, 44) && b(m, 56) && b(m, 67) && b(m, 78)
}
/// roll angle in 1/256 units of 45 deg: exact value = roll_num_50 * 45 / 256 degrees
pub fn roll_raw_50(m: &[u32]) -> i32 {
    twos(bit(m, 34), bits(m, 35, 43), 9)
}
/// true track in units of 90/512 deg, two's complement of sign bit 45 + bits 46-55
pub fn track_raw_50(m: &[u32]) -> i32 {
    twos(bit(m, 45), bits(m, 46, 55), 10)
}
pub fn gs_50(m: &[u32]) -> u32 {
    bits(m, 57, 66) * 2
}
/// track angle rate in units of 8/256 = 1/32 deg/s
pub fn track_rate_raw_50(m: &[u32]) -> i32 {
    twos(bit(m, 68), bits(m, 69, 77), 9)
}
pub fn tas_50(m: &[u32]) -> u32 {
    bits(m, 79, 88) * 2
}
/// "integers truncated": |shown - exact| < 1 where exact = num/den
pub fn trunc_ok(shown: i32, num: i64, den: i64) -> bool {
    let d = shown as i64 * den - num;
    d < den && d > -den
}
/// angle in [0,360) from a two's complement count of 90/512 deg
pub fn angle_ok(shown: u32, raw: i32) -> bool {
    let num = if raw < 0 { raw as i64 + 2048 } else { raw as i64 } * 90; // 360 deg = 2048 counts
    trunc_ok(shown as i32, num, 512)
}
pub fn plausible_50(m: &[u32]) -> bool {
    let roll = roll_raw_50(m);
    let gs = gs_50(m);
    let tas = tas_50(m);
    status_50(m)
        && bits(m, 35, 43) != 0 && bits(m, 46, 55) != 0 && bits(m, 57, 66) != 0 && bits(m, 69, 77) != 0 && bits(m, 79, 88) != 0
        && roll * 45 <= 50 * 256 && roll * 45 >= -50 * 256
        && gs <= 600 && tas <= 500
        && (if gs > tas { gs - tas } else { tas - gs }) < 200
}

// ------------------------------------------------------------------ BDS 6,0
pub fn status_60(m: &[u32]) -> bool {
    b(m, 33) && b(m, 45) && b(m, 56) && b(m, 67) && b(m, 78)
}
pub fn heading_raw_60(m: &[u32]) -> i32 {
    twos(bit(m, 34), bits(m, 35, 44), 10)
}
pub fn ias_60(m: &[u32]) -> u32 {
    bits(m, 46, 55)
}
/// Mach in units of 2.048/512 = 0.004
pub fn mach_raw_60(m: &[u32]) -> u32 {
    bits(m, 57, 66)
}
/// barometric altitude rate in ft/min (LSB 32)
pub fn baro_rate_60(m: &[u32]) -> i32 {
    twos(bit(m, 68), bits(m, 69, 77), 9) * 32
}
pub fn inertial_rate_60(m: &[u32]) -> i32 {
    twos(bit(m, 79), bits(m, 80, 88), 9) * 32
}
pub fn plausible_60(m: &[u32]) -> bool {
    let br = baro_rate_60(m);
    let ir = inertial_rate_60(m);
    status_60(m)
        && bits(m, 35, 44) != 0 && bits(m, 46, 55) != 0 && bits(m, 57, 66) != 0 && bits(m, 69, 77) != 0 && bits(m, 80, 88) != 0
        && mach_raw_60(m) <= 250
        && br <= 6000 && br >= -6000 && ir <= 6000 && ir >= -6000
}

// ------------------------------------------------------------------ BDS 1,7
/// common-usage GICB capability report: bit 39 (BDS 2,0) set by the code's rule, bits 61-88 zero
pub fn looks_17(m: &[u32]) -> bool {
    b(m, 39) && bits(m, 61, 88) == 0
}
pub fn cap17_bds40(m: &[u32]) -> bool {
    b(m, 41)
}
pub fn cap17_bds50(m: &[u32]) -> bool {
    b(m, 48)
}
pub fn cap17_bds60(m: &[u32]) -> bool {
    b(m, 56)
}
