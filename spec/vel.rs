//! C09: airborne velocity squitter (DF17 TC19 subtype 1/2).
use super::bits::*;

/// Vertical rate: sign bit 69, 9-bit field 70..78.  Field 0 = no information.
pub fn spec_vrate(m: &[u32]) -> Option<i32> {
    let sign = bit(m, 69);
    let field = bits(m, 70, 78);
    if field == 0 {
        return None;
    }
    let v = 64 * (field as i32 - 1);
    Some(if sign == 1 { -v } else { v })
}

/// Signed east and north velocity components (kt units of the subtype); None if the
/// component field is 0 (no information).  Direction bit 1 = west / south.
pub fn spec_v_east(m: &[u32]) -> Option<i32> {
    let dir = bit(m, 46);
    let f = bits(m, 47, 56);
    if f == 0 {
        return None;
    }
    let v = f as i32 - 1;
    Some(if dir == 1 { -v } else { v })
}
pub fn spec_v_north(m: &[u32]) -> Option<i32> {
    let dir = bit(m, 57);
    let f = bits(m, 58, 67);
    if f == 0 {
        return None;
    }
    let v = f as i32 - 1;
    Some(if dir == 1 { -v } else { v })
}

/// Track in whole degrees [0,360) from an angle in radians as returned by atan2(Vew, Vns).
pub fn spec_track_from_angle(a: f64) -> u32 {
    let d = a.to_degrees().floor(); // std's canonical radians->degrees conversion
    let mut t = d as i64;
    t = ((t % 360) + 360) % 360;
    t as u32
}
