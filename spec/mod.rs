//! Specification functions for meslab/squitterator (plain Rust, no dependency on /repo).
//! Written from /verif/properties.jsonl and the public Mode S / ADS-B field definitions,
//! NOT from the code under verification.  Compiled (a) into the scratch copy of the crate
//! as `crate::verif_spec` (right-hand side of every `ensures`), (b) into the Verus lemma
//! files for the pure subset.  One text, so contract and lemma cannot drift apart.
#![allow(dead_code)]
#![allow(clippy::all)]

pub mod alt;
pub mod bds;
pub mod bits;
pub mod country;
pub mod cpr;
pub mod crc;
pub mod h;
pub mod ident;
pub mod vel;

pub use alt::*;
pub use bds::*;
pub use bits::*;
pub use country::*;
pub use cpr::*;
pub use crc::*;
pub use ident::*;
pub use vel::*;
