//! C17: registration country = the allocation block containing the address.
include!("country_table.rs");

/// Linear scan over the flat block list (no prefix nesting).
pub fn spec_country(icao: u32) -> &'static str {
    let mut i = 0;
    while i < COUNTRY_BLOCKS.len() {
        let (lo, hi, code) = COUNTRY_BLOCKS[i];
        if lo <= icao && icao <= hi {
            return code;
        }
        i += 1;
    }
    "??"
}

/// Index form (cheaper to compare under the verifier): Some(row) or None.
pub fn spec_country_idx(icao: u32) -> Option<usize> {
    let mut i = 0;
    while i < COUNTRY_BLOCKS.len() {
        let (lo, hi, _) = COUNTRY_BLOCKS[i];
        if lo <= icao && icao <= hi {
            return Some(i);
        }
        i += 1;
    }
    None
}

/// Table sanity: sorted, disjoint, every block a power-of-two sized, size-aligned range.
pub fn country_table_well_formed() -> bool {
    let mut i = 0;
    while i < COUNTRY_BLOCKS.len() {
        let (lo, hi, _) = COUNTRY_BLOCKS[i];
        if lo > hi || hi > 0xFF_FFFF {
            return false;
        }
        let size = hi - lo + 1;
        if size & (size - 1) != 0 || lo % size != 0 {
            return false;
        }
        if i + 1 < COUNTRY_BLOCKS.len() && hi >= COUNTRY_BLOCKS[i + 1].0 {
            return false;
        }
        i += 1;
    }
    true
}

// Static (compile-time) check of the same: the scratch crate does not compile if the table is
// not sorted / disjoint / aligned.
const fn table_wf_const() -> bool {
    let mut i = 0;
    while i < 189 {
        let lo = COUNTRY_RANGES[i].0;
        let hi = COUNTRY_RANGES[i].1;
        if lo > hi || hi > 0xFF_FFFF {
            return false;
        }
        let size = hi - lo + 1;
        if size & (size - 1) != 0 || lo % size != 0 {
            return false;
        }
        if i + 1 < 189 && hi >= COUNTRY_RANGES[i + 1].0 {
            return false;
        }
        i += 1;
    }
    true
}
const _: () = { assert!(table_wf_const()) };
