//! Mode S CRC-24, generator 0x1FFF409 (x^24 + x^23 + ... + x^10 + x^3 + 1), written as the
//! textbook bit-serial LFSR (one register, one data bit per step) - structurally different
//! from the shifted-window long division used in /repo.
use super::bits::*;

pub const GEN_LOW24: u32 = 0xFFF409; // generator without its x^24 term

/// Remainder of (first `nbits` bits of the frame) * x^24 modulo the generator.
pub fn crc24(m: &[u32], nbits: u32) -> u32 {
    let mut reg: u32 = 0;
    let mut p = 1;
    while p <= nbits {
        let fb = ((reg >> 23) & 1) ^ bit(m, p);
        reg = (reg << 1) & 0xFF_FFFF;
        if fb == 1 {
            reg ^= GEN_LOW24;
        }
        p += 1;
    }
    reg
}

/// Number of data bits preceding the 24-bit PI/AP field.
pub fn data_bits(m: &[u32]) -> u32 {
    (m.len() as u32) * 4 - 24
}

/// The 24-bit PI/AP field (last 24 bits of the frame).
pub fn ap_field(m: &[u32]) -> u32 {
    let n = (m.len() as u32) * 4;
    bits(m, n - 23, n)
}

/// Syndrome: CRC-24 of the data bits xor the last 24 bits.  Zero for an intact DF17/18,
/// interrogator code (low 7 bits) for an intact DF11, the address for DF0/4/5/16/20/21.
pub fn syndrome(m: &[u32]) -> u32 {
    crc24(m, data_bits(m)) ^ ap_field(m)
}

/// C04: parity rule for squitters.  Other formats carry address/parity and cannot be checked.
pub fn parity_ok(m: &[u32]) -> bool {
    match df_of(m) {
        17 | 18 => syndrome(m) == 0,
        11 => syndrome(m) & 0xFF_FF80 == 0,
        _ => true,
    }
}

/// C03: the address a frame is attributed to (None: dropped / not one of the nine formats'
/// rule).  AA field for DF11/17/18, AP xor CRC for DF0/4/5/16/20/21.
pub fn spec_icao(m: &[u32]) -> Option<u32> {
    let a = match df_of(m) {
        11 | 17 | 18 => bits(m, 9, 32),
        0 | 4 | 5 | 16 | 20 | 21 => syndrome(m),
        _ => return None,
    };
    if a == 0 { None } else { Some(a) }
}

/// C02 + C04: a digit vector of length 14 or 28 is taken as a frame iff ...
pub fn frame_accepted(m: &[u32]) -> bool {
    valid_msg(m) && agree(m) && parity_ok(m)
}

/// C03 in terms of a given CRC value of the data bits (used where the CRC routine is a
/// contracted callee): AA field for DF11/17/18, AP xor crc for DF0/4/5/16/20/21; zero dropped.
pub fn icao_from(m: &[u32], crc: u32) -> Option<u32> {
    let a = match df_of(m) {
        11 | 17 | 18 => bits(m, 9, 32),
        0 | 4 | 5 | 16 | 20 | 21 => ap_field(m) ^ crc,
        _ => return None,
    };
    if a == 0 { None } else { Some(a) }
}
