//! C05: Mode S altitude code (AC13 of DF4/20, AC12 of DF17 TC 9-18).
use super::bits::*;

/// What the property allows as the decoded altitude.
#[derive(Clone, Copy, PartialEq, Debug)]
pub enum AltSpec {
    /// exactly this result (None = "no altitude")
    Exact(Option<u32>),
    /// the value, or no altitude (Gillham values of 100000 ft and more, which the
    /// decoder is documented to discard)
    ValueOrNone(u32),
    /// the property does not constrain this code (M=1 metric codes; legal Gillham codes
    /// whose value is below 0 ft)
    Any,
}

pub fn alt_ok(spec: AltSpec, actual: Option<u32>) -> bool {
    match spec {
        AltSpec::Exact(v) => actual == v,
        AltSpec::ValueOrNone(v) => actual.is_none() || actual == Some(v),
        AltSpec::Any => true,
    }
}

/// AC13 = bits 20..32: C1 A1 C2 A2 C4 A4 M B1 Q B2 D2 B4 D4 (bit 12 .. bit 0 of the value).
pub fn ac13_of(m: &[u32]) -> u32 {
    bits(m, 20, 32)
}
/// AC12 = bits 41..52 of a DF17 airborne position: same without the M bit.
pub fn ac12_of(m: &[u32]) -> u32 {
    bits(m, 41, 52)
}
/// AC12 -> AC13 by inserting M = 0.
pub fn ac12_to_ac13(ac12: u32) -> u32 {
    ((ac12 >> 6) << 7) | (ac12 & 0x3F)
}

pub const AC13_M: u32 = 1 << 6;
pub const AC13_Q: u32 = 1 << 4;

/// Region names used to keep findings local.
#[derive(Clone, Copy, PartialEq, Debug)]
pub enum AltRegion {
    Metric,
    Zero,
    Q1NonNeg,
    Q1Neg,
    GillhamLegal,
    GillhamLegalNeg,
    GillhamHuge,
    GillhamIllegal,
}

/// The 11-bit N of a Q=1 code (M and Q removed).
pub fn ac13_n(ac13: u32) -> u32 {
    ((ac13 & 0x1F80) >> 2) | ((ac13 & 0x20) >> 1) | (ac13 & 0xF)
}

/// Gillham (Mode C) decoding of an AC13 code with M=0, Q=0.  Returns the altitude in units
/// of 100 ft offset by 13 (i.e. 500ft-count*5 + 100ft-count), or None for an illegal code.
pub fn gillham_hundreds_plus13(ac13: u32) -> Option<u32> {
    let c1 = (ac13 >> 12) & 1;
    let a1 = (ac13 >> 11) & 1;
    let c2 = (ac13 >> 10) & 1;
    let a2 = (ac13 >> 9) & 1;
    let c4 = (ac13 >> 8) & 1;
    let a4 = (ac13 >> 7) & 1;
    let b1 = (ac13 >> 5) & 1;
    let b2 = (ac13 >> 3) & 1;
    let d2 = (ac13 >> 2) & 1;
    let b4 = (ac13 >> 1) & 1;
    let d4 = ac13 & 1;
    if c1 == 0 && c2 == 0 && c4 == 0 {
        return None; // C bits all zero: illegal
    }
    // 100-ft digit: reflected Gray code C1 C2 C4
    let mut one: u32 = 0;
    if c1 == 1 {
        one ^= 7;
    }
    if c2 == 1 {
        one ^= 3;
    }
    if c4 == 1 {
        one ^= 1;
    }
    if one & 5 == 5 {
        one ^= 2; // 7 -> 5
    }
    if one > 5 {
        return None; // 6 is illegal
    }
    // 500-ft count: Gray code D2 D4 A1 A2 A4 B1 B2 B4 (D1 is not transmitted in Mode S)
    let mut five: u32 = 0;
    if d2 == 1 {
        five ^= 0xFF;
    }
    if d4 == 1 {
        five ^= 0x7F;
    }
    if a1 == 1 {
        five ^= 0x3F;
    }
    if a2 == 1 {
        five ^= 0x1F;
    }
    if a4 == 1 {
        five ^= 0x0F;
    }
    if b1 == 1 {
        five ^= 0x07;
    }
    if b2 == 1 {
        five ^= 0x03;
    }
    if b4 == 1 {
        five ^= 0x01;
    }
    if five & 1 == 1 {
        one = 6 - one; // odd 500-ft count: the 100-ft digit runs backwards
    }
    Some(five * 5 + one)
}

pub fn alt_region13(ac13: u32) -> AltRegion {
    if ac13 & AC13_M != 0 {
        AltRegion::Metric
    } else if ac13 == 0 {
        AltRegion::Zero
    } else if ac13 & AC13_Q != 0 {
        if 25 * ac13_n(ac13) >= 1000 { AltRegion::Q1NonNeg } else { AltRegion::Q1Neg }
    } else {
        match gillham_hundreds_plus13(ac13) {
            None => AltRegion::GillhamIllegal,
            Some(h) if h < 13 => AltRegion::GillhamLegalNeg,
            Some(h) if (h - 13) * 100 >= 100_000 => AltRegion::GillhamHuge,
            Some(_) => AltRegion::GillhamLegal,
        }
    }
}

/// C05: altitude of a 13-bit code.
pub fn spec_alt13(ac13: u32) -> AltSpec {
    match alt_region13(ac13) {
        AltRegion::Metric => AltSpec::Any,
        AltRegion::Zero => AltSpec::Exact(None),
        AltRegion::Q1NonNeg => AltSpec::Exact(Some(25 * ac13_n(ac13) - 1000)),
        AltRegion::Q1Neg => AltSpec::Exact(None),
        AltRegion::GillhamIllegal => AltSpec::Exact(None),
        AltRegion::GillhamLegalNeg => AltSpec::Any,
        AltRegion::GillhamHuge => match gillham_hundreds_plus13(ac13) {
            Some(h) => AltSpec::ValueOrNone((h - 13) * 100),
            None => AltSpec::Any,
        },
        AltRegion::GillhamLegal => match gillham_hundreds_plus13(ac13) {
            Some(h) => AltSpec::Exact(Some((h - 13) * 100)),
            None => AltSpec::Any,
        },
    }
}

/// The 13-bit altitude code a frame of this DF carries (AC12 widened with M=0 for DF17).
pub fn alt_code_of(m: &[u32], df: u32) -> u32 {
    if df == 17 { ac12_to_ac13(ac12_of(m)) } else { ac13_of(m) }
}

/// C05: the altitude a frame gives (DF4/20: AC13; DF17 TC9-18: AC12).
pub fn spec_altitude(m: &[u32], df: u32) -> AltSpec {
    spec_alt13(alt_code_of(m, df))
}
