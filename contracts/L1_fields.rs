//@target src/decoder.rs
//@props C01,C08,C11
//@needs L0_calc
//@attach fn=get_downlink_format file=src/decoder/downlink.rs
//@| #[cfg_attr(kani, kani::requires(crate::verif_spec::valid_msg(message)))]
//@| #[cfg_attr(kani, kani::ensures(|r: &Option<u32>| *r == Some(crate::verif_spec::df_of(message))))]
//@attach fn=get_message_type file=src/decoder/utils.rs
//@| #[cfg_attr(kani, kani::requires(crate::verif_spec::valid_msg(message)))]
//@| #[cfg_attr(kani, kani::ensures(|r: &(u32, u32)| r.0 == crate::verif_spec::tc_of(message) && r.1 == crate::verif_spec::st_of(message)))]
//@attach fn=get_capability file=src/decoder/utils.rs
//@| #[cfg_attr(kani, kani::requires(crate::verif_spec::valid_msg(message)))]
//@| #[cfg_attr(kani, kani::ensures(|r: &u32| *r == crate::verif_spec::ca_of(message)))]
//@attach fn=cpr file=src/decoder/adsb/position.rs
//@| #[cfg_attr(kani, kani::requires(crate::verif_spec::valid_msg(message) && message.len() == 28))]
//@| #[cfg_attr(kani, kani::ensures(|r: &Option<(u32, u32, u32)>| *r == Some((crate::verif_spec::bit(message, 54), crate::verif_spec::bits(message, 55, 71), crate::verif_spec::bits(message, 72, 88)))))]
//@attach fn=surveillance_status file=src/decoder/adsb/surveillance_status.rs
//@| #[cfg_attr(kani, kani::requires(crate::verif_spec::valid_msg(message)))]
//@| #[cfg_attr(kani, kani::ensures(|r: &char| *r == crate::verif_spec::spec_surveillance_status(message)))]
//@attach fn=version file=src/decoder/adsb/version.rs
//@| #[cfg_attr(kani, kani::requires(crate::verif_spec::valid_msg(message) && message.len() == 28))]
//@| #[cfg_attr(kani, kani::ensures(|r: &Option<u32>| *r == Some(crate::verif_spec::bits(message, 73, 75))))]

#[cfg(kani)]
mod verif_l1_fields {
    use super::*;
    use crate::verif_spec::h::*;

    //@ob id=L1.fields.14 props=C01,C11 tier=quick kind=contract fns=downlink.rs:get_downlink_format,utils.rs:get_message_type,utils.rs:get_capability,adsb/surveillance_status.rs:surveillance_status draw=frame14
    //@region all short frames: DF = bits 1-5, CA = bits 6-8, TC/ST = bits 33-37/38-40, surveillance status letter = bits 38-39
    #[kani::proof]
    #[kani::unwind(34)]
    fn l1_fields_14() {
        let m = any_frame14();
        get_downlink_format(&m);
        get_message_type(&m);
        get_capability(&m);
        surveillance_status(&m);
        kani::cover!(true, "reach_end");
    }

    //@ob id=L1.fields.28 props=C01,C08,C11 tier=quick kind=contract fns=downlink.rs:get_downlink_format,utils.rs:get_message_type,utils.rs:get_capability,adsb/position.rs:cpr,adsb/surveillance_status.rs:surveillance_status,adsb/version.rs:version draw=frame28
    //@region all long frames: the same plus CPR triple (F = bit 54, lat = bits 55-71, lon = bits 72-88) and ADS-B version (bits 73-75)
    #[kani::proof]
    #[kani::unwind(34)]
    fn l1_fields_28() {
        let m = any_frame28();
        get_downlink_format(&m);
        get_message_type(&m);
        get_capability(&m);
        cpr(&m);
        surveillance_status(&m);
        version(&m);
        kani::cover!(true, "reach_end");
    }
}
