//@target src/decoder/adsb/altitude.rs
//@props C05
//@attach fn=altitude
//@| #[cfg_attr(kani, kani::requires(crate::verif_spec::valid_msg(message) && (df != 17 || message.len() == 28)))]
//@| #[cfg_attr(kani, kani::ensures(|r: &Option<u32>| crate::verif_spec::alt_ok(crate::verif_spec::spec_altitude(message, df), *r)))]

#[cfg(kani)]
mod verif_c05_altitude {
    use super::*;
    use crate::verif_spec::h::*;
    use crate::verif_spec as vs;

    fn region_of(m: &[u32], df: u32) -> vs::AltRegion {
        vs::alt_region13(vs::alt_code_of(m, df))
    }

    macro_rules! alt_region_proof {
        ($name:ident, $frame:ident, $df:expr, $pred:expr) => {
            #[kani::proof]
            #[kani::unwind(34)]
            fn $name() {
                let m = $frame();
                let df: u32 = $df;
                let reg = region_of(&m, df);
                kani::assume($pred(reg));
                altitude(&m, df);
                kani::cover!(true, "reach_end");
            }
        };
    }
    fn any_df_not17() -> u32 {
        let df: u32 = kani::any();
        kani::assume(df != 17);
        df
    }
    fn df17() -> u32 {
        17
    }
    fn is_q1(r: vs::AltRegion) -> bool {
        r == vs::AltRegion::Q1NonNeg
    }
    fn is_q1neg(r: vs::AltRegion) -> bool {
        r == vs::AltRegion::Q1Neg
    }
    fn is_zero_or_metric(r: vs::AltRegion) -> bool {
        r == vs::AltRegion::Zero || r == vs::AltRegion::Metric
    }
    fn is_gillham_legal(r: vs::AltRegion) -> bool {
        r == vs::AltRegion::GillhamLegal || r == vs::AltRegion::GillhamHuge || r == vs::AltRegion::GillhamLegalNeg
    }
    fn is_gillham_illegal(r: vs::AltRegion) -> bool {
        r == vs::AltRegion::GillhamIllegal
    }

    //@ob id=C05.altitude.ac13.q1_nonneg.14 props=C05,C01 tier=quick kind=contract fns=adsb/altitude.rs:altitude,adsb/altitude.rs:altitude_value,utils/ma_code.rs:ma_code draw=frame14 replay=altitude13
    //@region DF4-style short frames, AC13 with M=0,Q=1 and 25N-1000>=0: altitude == 25N-1000 (any df argument other than 17)
    alt_region_proof!(c05_ac13_q1_nonneg_14, any_frame14, any_df_not17(), is_q1);
    //@ob id=C05.altitude.ac13.q1_nonneg.28 props=C05,C01 tier=quick kind=contract fns=adsb/altitude.rs:altitude,adsb/altitude.rs:altitude_value,utils/ma_code.rs:ma_code draw=frame28 replay=altitude13
    //@region DF20-style long frames, AC13 with M=0,Q=1 and 25N-1000>=0
    alt_region_proof!(c05_ac13_q1_nonneg_28, any_frame28, any_df_not17(), is_q1);
    //@ob id=C05.altitude.ac13.q1_neg.14 props=C05,C01 tier=quick kind=contract fns=adsb/altitude.rs:altitude,adsb/altitude.rs:altitude_value draw=frame14 replay=altitude13
    //@region short frames, AC13 with M=0,Q=1 and 25N-1000<0 (N<40): no altitude, no arithmetic overflow
    alt_region_proof!(c05_ac13_q1_neg_14, any_frame14, any_df_not17(), is_q1neg);
    //@ob id=C05.altitude.ac13.q1_neg.28 props=C05,C01 tier=quick kind=contract fns=adsb/altitude.rs:altitude,adsb/altitude.rs:altitude_value draw=frame28 replay=altitude13
    //@region long frames, AC13 with M=0,Q=1 and N<40
    alt_region_proof!(c05_ac13_q1_neg_28, any_frame28, any_df_not17(), is_q1neg);
    //@ob id=C05.altitude.ac13.zero_metric.14 props=C05,C01 tier=quick kind=contract fns=adsb/altitude.rs:altitude,adsb/altitude.rs:altitude_value draw=frame14 replay=altitude13
    //@region short frames, AC13 all zero (no altitude) or M=1 (unconstrained value, but must not crash)
    alt_region_proof!(c05_ac13_zero_metric_14, any_frame14, any_df_not17(), is_zero_or_metric);
    //@ob id=C05.altitude.ac13.zero_metric.28 props=C05,C01 tier=quick kind=contract fns=adsb/altitude.rs:altitude,adsb/altitude.rs:altitude_value draw=frame28 replay=altitude13
    //@region long frames, AC13 all zero or M=1
    alt_region_proof!(c05_ac13_zero_metric_28, any_frame28, any_df_not17(), is_zero_or_metric);
    //@ob id=C05.altitude.ac13.gillham_legal.14 props=C05,C01 tier=quick kind=contract fns=adsb/altitude.rs:altitude,adsb/altitude/graytobin.rs:graytobin draw=frame14 replay=altitude13
    //@region short frames, AC13 with M=0,Q=0, legal Gillham code: 100-ft Gillham decoding
    alt_region_proof!(c05_ac13_gillham_legal_14, any_frame14, any_df_not17(), is_gillham_legal);
    //@ob id=C05.altitude.ac13.gillham_legal.28 props=C05,C01 tier=quick kind=contract fns=adsb/altitude.rs:altitude,adsb/altitude/graytobin.rs:graytobin draw=frame28 replay=altitude13
    //@region long frames, AC13 with M=0,Q=0, legal Gillham code
    alt_region_proof!(c05_ac13_gillham_legal_28, any_frame28, any_df_not17(), is_gillham_legal);
    //@ob id=C05.altitude.ac13.gillham_illegal.14 props=C05,C01 tier=quick kind=contract fns=adsb/altitude.rs:altitude,adsb/altitude/graytobin.rs:graytobin draw=frame14 replay=altitude13
    //@region short frames, AC13 with M=0,Q=0, illegal Gillham code (C bits zero, or 100-ft digit 6): no altitude
    alt_region_proof!(c05_ac13_gillham_illegal_14, any_frame14, any_df_not17(), is_gillham_illegal);
    //@ob id=C05.altitude.ac13.gillham_illegal.28 props=C05,C01 tier=quick kind=contract fns=adsb/altitude.rs:altitude,adsb/altitude/graytobin.rs:graytobin draw=frame28 replay=altitude13
    //@region long frames, AC13 with M=0,Q=0, illegal Gillham code
    alt_region_proof!(c05_ac13_gillham_illegal_28, any_frame28, any_df_not17(), is_gillham_illegal);

    //@ob id=C05.altitude.ac12.q1_nonneg props=C05,C01 tier=quick kind=contract fns=adsb/altitude.rs:altitude,adsb/altitude.rs:altitude_value,utils/me_code.rs:me_code draw=frame28 replay=altitude12
    //@region DF17 frames, AC12 (bits 41-52) with Q=1 and 25N-1000>=0: altitude == 25N-1000
    alt_region_proof!(c05_ac12_q1_nonneg, any_frame28, df17(), is_q1);
    //@ob id=C05.altitude.ac12.q1_neg props=C05,C01 tier=quick kind=contract fns=adsb/altitude.rs:altitude,adsb/altitude.rs:altitude_value draw=frame28 replay=altitude12
    //@region DF17 frames, AC12 with Q=1 and N<40: no altitude, no overflow
    alt_region_proof!(c05_ac12_q1_neg, any_frame28, df17(), is_q1neg);
    //@ob id=C05.altitude.ac12.zero props=C05,C01 tier=quick kind=contract fns=adsb/altitude.rs:altitude,adsb/altitude.rs:altitude_value draw=frame28 replay=altitude12
    //@region DF17 frames, AC12 all zero: no altitude
    alt_region_proof!(c05_ac12_zero, any_frame28, df17(), is_zero_or_metric);
    //@ob id=C05.altitude.ac12.gillham_legal props=C05,C01 tier=quick kind=contract fns=adsb/altitude.rs:altitude,adsb/altitude/graytobin.rs:graytobin draw=frame28 replay=altitude12
    //@region DF17 frames, AC12 with Q=0, legal Gillham code
    alt_region_proof!(c05_ac12_gillham_legal, any_frame28, df17(), is_gillham_legal);
    //@ob id=C05.altitude.ac12.gillham_illegal props=C05,C01 tier=quick kind=contract fns=adsb/altitude.rs:altitude,adsb/altitude/graytobin.rs:graytobin draw=frame28 replay=altitude12
    //@region DF17 frames, AC12 with Q=0, illegal Gillham code: no altitude
    alt_region_proof!(c05_ac12_gillham_illegal, any_frame28, df17(), is_gillham_illegal);

    //@ob id=C05.altitude.field_only.ac13 props=C05 tier=quick kind=harness fns=adsb/altitude.rs:altitude draw=frame28
    //@region two long frames equal on bits 20-32 and otherwise arbitrary, any df != 17: same altitude (computed from the field and nothing else)
    #[kani::proof]
    #[kani::unwind(34)]
    fn c05_field_only_ac13() {
        let a = any_frame28();
        let b = any_frame28();
        let df = any_df_not17();
        kani::assume(vs::ac13_of(&a) == vs::ac13_of(&b));
        kani::assume(vs::ac13_of(&a) & vs::AC13_M == 0);
        assert!(altitude(&a, df) == altitude(&b, df), "altitude depends on the AC13 field only");
        kani::cover!(true, "reach_end");
    }

    //@ob id=C05.altitude.field_only.ac12 props=C05 tier=quick kind=harness fns=adsb/altitude.rs:altitude draw=frame28
    //@region two DF17 frames equal on bits 41-52 and otherwise arbitrary: same altitude
    #[kani::proof]
    #[kani::unwind(34)]
    fn c05_field_only_ac12() {
        let a = any_frame28();
        let b = any_frame28();
        kani::assume(vs::ac12_of(&a) == vs::ac12_of(&b));
        assert!(altitude(&a, 17) == altitude(&b, 17), "altitude depends on the AC12 field only");
        kani::cover!(true, "reach_end");
    }
}
