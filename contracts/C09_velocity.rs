//@target src/decoder/ehs/base.rs
//@props C09
//@frem src/decoder/ehs/base.rs
//@assume libm: f64::sqrt, f64::atan2, f64::powi are replaced by ghost-recording stand-ins constrained only by their range (sqrt >= 0 and finite, atan2 in [-pi,pi], powi(x,2) in [0, 2e6]); the obligation pins the ARGUMENTS passed to them and how their results are turned into integers

#[cfg(kani)]
mod verif_c09_velocity {
    use super::*;
    use crate::verif_spec::h::*;
    use crate::verif_spec as vs;

    static mut G_SQRT_ARG: f64 = -1.0;
    static mut G_SQRT_RET: f64 = -1.0;
    static mut G_SQRT_CALLS: u32 = 0;
    static mut G_ATAN2_Y: f64 = 0.0;
    static mut G_ATAN2_X: f64 = 0.0;
    static mut G_ATAN2_RET: f64 = 0.0;
    static mut G_ATAN2_CALLS: u32 = 0;

    fn stub_sqrt(x: f64) -> f64 {
        let r: f64 = kani::any();
        kani::assume(r >= 0.0 && r <= 3000.0);
        unsafe {
            G_SQRT_ARG = x;
            G_SQRT_RET = r;
            G_SQRT_CALLS += 1;
        }
        r
    }
    fn stub_atan2(y: f64, x: f64) -> f64 {
        let r: f64 = kani::any();
        kani::assume(r >= -core::f64::consts::PI && r <= core::f64::consts::PI);
        unsafe {
            G_ATAN2_Y = y;
            G_ATAN2_X = x;
            G_ATAN2_RET = r;
            G_ATAN2_CALLS += 1;
        }
        r
    }
    // powi stand-in: records its two uses and returns arbitrary non-negative values p0, p1
    // (libm contract: powi(x, 2) = x^2); the obligation pins the arguments and that the square
    // root is taken of p0 + p1.
    static mut G_POWI_CALLS: usize = 0;
    static mut G_POWI_ARG: [(f64, i32); 2] = [(0.0, 0); 2];
    static mut G_POWI_RET: [f64; 2] = [0.0; 2];
    fn stub_powi(x: f64, n: i32) -> f64 {
        let r: f64 = kani::any();
        kani::assume(r >= 0.0 && r <= 2_000_000.0);
        unsafe {
            let k = G_POWI_CALLS;
            G_POWI_CALLS += 1;
            if k < 2 {
                G_POWI_ARG[k] = (x, n);
                G_POWI_RET[k] = r;
            }
        }
        r
    }

    //@ob id=C09.velocity.no_information props=C09,C01 tier=quick kind=harness fns=ehs/base.rs:track_and_groundspeed draw=frame28
    //@region all long frames in which the east-west or north-south velocity field is 0 ('no information'), both subtypes: no ground speed and no track
    #[kani::proof]
    #[kani::unwind(34)]
    #[kani::stub(f64::sqrt, stub_sqrt)]
    #[kani::stub(f64::atan2, stub_atan2)]
    #[kani::stub(f64::powi, stub_powi)]
    fn c09_velocity_no_information() {
        let m = any_frame28();
        let ss: bool = kani::any();
        kani::assume(vs::spec_v_east(&m).is_none() || vs::spec_v_north(&m).is_none());
        let (track, gs) = track_and_groundspeed(&m, ss);
        assert!(track.is_none(), "component field 0: no track");
        assert!(gs.is_none(), "component field 0: no ground speed");
        kani::cover!(true, "reach_end");
    }

    fn value_setup() -> ([u32; 28], bool, i32, i32, (Option<u32>, Option<u32>)) {
        let m = any_frame28();
        let ss: bool = kani::any();
        let (ve, vn) = (vs::spec_v_east(&m), vs::spec_v_north(&m));
        kani::assume(ve.is_some() && vn.is_some());
        let r = track_and_groundspeed(&m, ss);
        (m, ss, ve.unwrap(), vn.unwrap(), r)
    }

    //@ob id=C09.velocity.speed props=C09,C01 tier=quick kind=harness fns=ehs/base.rs:track_and_groundspeed draw=frame28
    //@region all long frames with both component fields non-zero (all 2x1023x2x1023 sign/magnitude pairs), both subtypes: components = +/-(field-1); sqrt taken of Vew^2+Vns^2, atan2 of (Vew, Vns); ground speed = floor(sqrt) (x4, within 4 kt, supersonic)
    #[kani::proof]
    #[kani::unwind(34)]
    #[kani::stub(f64::sqrt, stub_sqrt)]
    #[kani::stub(f64::atan2, stub_atan2)]
    #[kani::stub(f64::powi, stub_powi)]
    fn c09_velocity_speed() {
        let (_m, ss, ve, vn, (_track, gs)) = value_setup();
        unsafe {
            assert!(G_SQRT_CALLS == 1 && G_ATAN2_CALLS == 1, "one sqrt, one atan2");
            assert!(G_POWI_CALLS == 2 && G_POWI_ARG[0] == (ve as f64, 2) && G_POWI_ARG[1] == (vn as f64, 2), "the two squares are of the signed components Vew, Vns = +/-(field-1)");
            assert!(G_SQRT_ARG == G_POWI_RET[0] + G_POWI_RET[1], "speed = sqrt(Vew^2 + Vns^2)");
            assert!(G_ATAN2_Y == ve as f64 && G_ATAN2_X == vn as f64, "angle = atan2(Vew, Vns)");
            let r = G_SQRT_RET;
            match gs {
                Some(g) => {
                    if ss {
                        assert!(g == (r.floor() as u32) * 4, "supersonic: ground speed = 4*floor(sqrt(..)), i.e. within 4 kt of 4*sqrt(..)");
                    } else {
                        assert!(g == r.floor() as u32, "ground speed = floor(sqrt(..))");
                    }
                }
                None => assert!(false, "both components known: ground speed has a value"),
            }
        }
        kani::cover!(true, "reach_end");
    }

    //@ob id=C09.velocity.track props=C09,C01 tier=quick kind=harness fns=ehs/base.rs:track_and_groundspeed draw=frame28
    //@region same frames: track = floor(degrees(angle)) brought into [0,360), for every angle in [-pi,pi] the arctangent may return
    #[kani::proof]
    #[kani::unwind(34)]
    #[kani::stub(f64::sqrt, stub_sqrt)]
    #[kani::stub(f64::atan2, stub_atan2)]
    #[kani::stub(f64::powi, stub_powi)]
    fn c09_velocity_track() {
        let (_m, _ss, _ve, _vn, (track, _gs)) = value_setup();
        let d = unsafe { G_ATAN2_RET }.to_degrees().floor(); // in [-180, 180]
        let want = if d < 0.0 { d + 360.0 } else { d };
        match track {
            Some(t) => assert!(t as f64 == want && t < 360, "track = floor(degrees(atan2(..))) in [0,360)"),
            None => assert!(false, "both components known: track has a value"),
        }
        kani::cover!(true, "reach_end");
    }
}
