//@target src/decoder/ehs/base.rs
//@props C09
//@assume libm: f64::sqrt, f64::atan2, f64::powi are replaced by ghost-recording stand-ins constrained only by their range (sqrt >= 0 and finite, atan2 in [-pi,pi], powi(x,2) = x*x); the obligation pins the ARGUMENTS passed to them and how their results are turned into integers

#[cfg(kani)]
mod verif_c09_velocity {
    use super::*;
    use crate::verif_spec::h::*;
    use crate::verif_spec::*;

    static mut G_SQRT_ARG: f64 = -1.0;
    static mut G_SQRT_RET: f64 = -1.0;
    static mut G_SQRT_CALLS: u32 = 0;
    static mut G_ATAN2_Y: f64 = 0.0;
    static mut G_ATAN2_X: f64 = 0.0;
    static mut G_ATAN2_RET: f64 = 0.0;
    static mut G_ATAN2_CALLS: u32 = 0;

    fn stub_sqrt(x: f64) -> f64 {
        let r: f64 = kani::any();
        kani::assume(r >= 0.0 && r <= 3000.0);
        unsafe {
            G_SQRT_ARG = x;
            G_SQRT_RET = r;
            G_SQRT_CALLS += 1;
        }
        r
    }
    fn stub_atan2(y: f64, x: f64) -> f64 {
        let r: f64 = kani::any();
        kani::assume(r >= -core::f64::consts::PI && r <= core::f64::consts::PI);
        unsafe {
            G_ATAN2_Y = y;
            G_ATAN2_X = x;
            G_ATAN2_RET = r;
            G_ATAN2_CALLS += 1;
        }
        r
    }
    fn stub_powi(x: f64, n: i32) -> f64 {
        if n == 2 { x * x } else { kani::any() }
    }

    //@ob id=C09.velocity.no_information props=C09 tier=quick kind=harness fns=ehs/base.rs:track_and_groundspeed draw=frame28
    //@region all long frames in which the east-west or north-south velocity field is 0 ('no information'), both subtypes: no ground speed and no track
    #[kani::proof]
    #[kani::unwind(34)]
    #[kani::stub(f64::sqrt, stub_sqrt)]
    #[kani::stub(f64::atan2, stub_atan2)]
    #[kani::stub(f64::powi, stub_powi)]
    fn c09_velocity_no_information() {
        let m = any_frame28();
        let ss: bool = kani::any();
        kani::assume(spec_v_east(&m).is_none() || spec_v_north(&m).is_none());
        let (track, gs) = track_and_groundspeed(&m, ss);
        assert!(track.is_none(), "component field 0: no track");
        assert!(gs.is_none(), "component field 0: no ground speed");
        kani::cover!(true, "reach_end");
    }

    //@ob id=C09.velocity.value props=C09 tier=quick kind=harness fns=ehs/base.rs:track_and_groundspeed draw=frame28
    //@region all long frames with both component fields non-zero (all 2x1023x2x1023 sign/magnitude pairs), both subtypes: gs = floor(sqrt(Vew^2+Vns^2)) (x4 within 4 kt supersonic), track = floor(deg(atan2(Vew,Vns))) mod 360, components = +/-(field-1)
    #[kani::proof]
    #[kani::unwind(34)]
    #[kani::stub(f64::sqrt, stub_sqrt)]
    #[kani::stub(f64::atan2, stub_atan2)]
    #[kani::stub(f64::powi, stub_powi)]
    fn c09_velocity_value() {
        let m = any_frame28();
        let ss: bool = kani::any();
        let (ve, vn) = (spec_v_east(&m), spec_v_north(&m));
        kani::assume(ve.is_some() && vn.is_some());
        let (ve, vn) = (ve.unwrap(), vn.unwrap());
        let (track, gs) = track_and_groundspeed(&m, ss);
        unsafe {
            assert!(G_SQRT_CALLS == 1 && G_ATAN2_CALLS == 1, "one sqrt, one atan2");
            assert!(G_SQRT_ARG == (ve * ve + vn * vn) as f64, "speed = sqrt(Vew^2 + Vns^2) of the signed components (field-1)");
            assert!(G_ATAN2_Y == ve as f64 && G_ATAN2_X == vn as f64, "angle = atan2(Vew, Vns)");
            let r = G_SQRT_RET;
            let fl = r.floor() as u32;
            match gs {
                Some(g) => {
                    if ss {
                        let diff = g as f64 - 4.0 * r;
                        assert!(diff >= -4.0 && diff <= 4.0, "supersonic: ground speed within 4 kt of 4*sqrt(..)");
                    } else {
                        assert!(g == fl, "ground speed = floor(sqrt(..))");
                    }
                }
                None => assert!(false, "both components known: ground speed has a value"),
            }
            assert!(track == Some(spec_track_from_angle(G_ATAN2_RET)), "track = floor(degrees(atan2(..))) in [0,360)");
        }
        kani::cover!(true, "reach_end");
    }
}
