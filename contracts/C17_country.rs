//@target src/decoder/country/country_icao_mask.rs
//@props C17
//@assume T-country-table: /verif/spec/country_table.rs is a faithful flat transcription of ICAO Annex 10 Vol III Table 9-1 (audited against 40 well-known blocks in tools/gen_country_table.py; no copy of the Annex exists on this machine)
//@attach fn=icao_to_country
//@| #[cfg_attr(kani, kani::requires(icao <= 0xFF_FFFF))]
//@| #[cfg_attr(kani, kani::ensures(|r: &(&'static str, &'static str)| crate::verif_spec::h::str_eq(r.1, crate::verif_spec::spec_country(icao))))]

#[cfg(kani)]
mod verif_c17 {
    use super::*;
    use crate::verif_spec as vs;

    //@ob id=C17.icao_to_country.contract props=C17 tier=quick kind=contract fns=country/country_icao_mask.rs:icao_to_country replay=country
    //@region all 2^24 addresses: code == block of the flat Annex 10 table containing the address, "??" outside every block
    #[kani::proof_for_contract(icao_to_country)]
    #[kani::unwind(192)]
    fn c17_icao_to_country() {
        let icao: u32 = kani::any();
        icao_to_country(icao);
        kani::cover!(true, "reach_end");
    }

    //@ob id=C17.table.well_formed props=C17 tier=thorough kind=harness fns=
    //@region the specification table itself: sorted, pairwise disjoint, power-of-two aligned blocks (no address in two blocks)
    #[kani::proof]
    #[kani::unwind(192)]
    fn c17_table_well_formed() {
        assert!(vs::country_table_well_formed(), "spec table: sorted, disjoint, aligned");
        kani::cover!(true, "reach_end");
    }

    // Caller obligation: the constructors ask the contracted function about their own key and
    // store its answer.  Compared by (pointer,len) identity with a second evaluation - the
    // answer itself is pinned by the contract above, so no string contents are read here.
    fn same_str(a: &str, b: &str) -> bool {
        a.as_ptr() == b.as_ptr() && a.len() == b.len()
    }

    //@ob id=C17.row.reg_from_key.from_message flags=noassert props=C17 tier=quick kind=harness fns=plane.rs:Plane::from_message
    //@region row created by Plane::from_message for any address and any DF11 frame: reg = icao_to_country(key).1, icao = key
    #[kani::proof]
    #[kani::unwind(90)]
    #[kani::stub(chrono::Utc::now, crate::verif_spec::h::stub_now)]
    fn c17_row_reg_from_message() {
        let m = crate::verif_spec::h::any_frame14();
        let icao: u32 = kani::any();
        kani::assume(icao <= 0xFF_FFFF);
        let p = crate::decoder::Plane::from_message(&m, 11, icao, false);
        assert!(same_str(p.reg, icao_to_country(icao).1), "row.reg == icao_to_country(key).1");
        assert!(p.icao == icao, "row.icao == key");
        kani::cover!(true, "reach_end");
    }

    //@ob id=C17.row.reg_from_key.from_downlink flags=noassert props=C17 tier=quick kind=harness fns=plane.rs:Plane::from_downlink
    //@region row created by Plane::from_downlink (the constructor the table uses) for any address and any DF11 frame
    #[kani::proof]
    #[kani::unwind(90)]
    #[kani::stub(chrono::Utc::now, crate::verif_spec::h::stub_now)]
    fn c17_row_reg_from_downlink() {
        use crate::decoder::Downlink;
        let mut m = crate::verif_spec::h::any_frame14();
        crate::verif_spec::h::set_bits(&mut m, 1, 5, 11);
        let icao: u32 = kani::any();
        kani::assume(icao <= 0xFF_FFFF);
        let dl = crate::decoder::DF::from_message(&m);
        if let Ok(dl) = dl {
            let p = crate::decoder::Plane::from_downlink(&dl, icao);
            assert!(same_str(p.reg, icao_to_country(icao).1), "row.reg == icao_to_country(key).1");
            assert!(p.icao == icao, "row.icao == key");
            kani::cover!(true, "reach_end");
        }
    }
}
