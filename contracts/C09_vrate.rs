//@target src/decoder/adsb/vertical_rate.rs
//@props C09
//@attach fn=vertical_rate
//@| #[cfg_attr(kani, kani::requires(crate::verif_spec::valid_msg(message) && message.len() == 28))]
//@| #[cfg_attr(kani, kani::ensures(|r: &Option<i32>| *r == crate::verif_spec::spec_vrate(message)))]

#[cfg(kani)]
mod verif_c09_vrate {
    use super::*;
    use crate::verif_spec::h::*;

    //@ob id=C09.vertical_rate props=C09,C01 tier=quick kind=contract fns=adsb/vertical_rate.rs:vertical_rate,adsb/vertical_rate.rs:vertical_rate_value draw=frame28 replay=vrate
    //@region all long frames (all 2x512 sign/field codes x every other bit): field 0 -> no value, else +/-64*(field-1); no overflow
    #[kani::proof]
    #[kani::unwind(34)]
    fn c09_vertical_rate() {
        let m = any_frame28();
        vertical_rate(&m); // contract (requires/ensures) asserted by Kani at this call
        kani::cover!(true, "reach_end");
    }
}
