//@target src/decoder/adsb/squawk.rs
//@props C06
//@attach fn=squawk
//@| #[cfg_attr(kani, kani::requires(crate::verif_spec::valid_msg(message)))]
//@| #[cfg_attr(kani, kani::ensures(|r: &Option<u32>| *r == Some(crate::verif_spec::spec_squawk(message))))]

#[cfg(kani)]
mod verif_c06_squawk {
    use super::*;
    use crate::verif_spec::h::*;

    //@ob id=C06.squawk.14 props=C06,C01 tier=quick kind=contract fns=adsb/squawk.rs:squawk,utils/ma_code.rs:ma_code draw=frame14 replay=squawk
    //@region all short frames (all 8192 ID13 fields x every other bit): squawk == 1000A+100B+10C+D from C1 A1 C2 A2 C4 A4 X B1 D1 B2 D2 B4 D4
    #[kani::proof]
    #[kani::unwind(34)]
    fn c06_squawk_14() {
        let m = any_frame14();
        squawk(&m);
        kani::cover!(true, "reach_end");
    }

    //@ob id=C06.squawk.28 props=C06,C01 tier=quick kind=contract fns=adsb/squawk.rs:squawk,utils/ma_code.rs:ma_code draw=frame28 replay=squawk
    //@region all long frames (DF21): same field, same decoding
    #[kani::proof]
    #[kani::unwind(34)]
    fn c06_squawk_28() {
        let m = any_frame28();
        squawk(&m);
        kani::cover!(true, "reach_end");
    }
}
