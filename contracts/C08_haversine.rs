//@target src/decoder/plane/update_position.rs
//@props C08
//@assume degrees_to_radians(d) = d*pi/180 is taken from its one-line text (CBMC does not prove the float self-equality within the budget); in C08.haversine it is a ghost recorder like the libm functions
//@assume libm: f64::{sin, cos, sqrt, atan2, powi} are ghost recorders returning arbitrary values in C08.haversine; the obligation pins the data flow of the haversine formula (which arguments reach which function, Earth radius 6371 km), not the numerical accuracy of libm

#[cfg(kani)]
mod verif_c08_haversine {
    use super::*;

    static mut SIN_N: usize = 0;
    static mut SIN_A: [f64; 2] = [0.0; 2];
    static mut SIN_R: [f64; 2] = [0.0; 2];
    // Recorders return fixed, pairwise distinct tokens (dyadic rationals, so the expected
    // combinations below are exact): the obligation is about which value flows where.
    static mut TOKEN: u32 = 0;
    fn anyf() -> f64 {
        unsafe {
            TOKEN += 1;
            match TOKEN {
                1 => 0.28125,
                2 => 0.40625,
                3 => 0.53125,
                4 => 0.65625,
                5 => 0.71875,
                6 => 0.84375,
                7 => 0.90625,
                8 => 0.96875,
                9 => 1.15625,
                10 => 1.34375,
                11 => 1.46875,
                12 => 1.59375,
                13 => 1.65625,
                _ => 1.78125,
            }
        }
    }
    fn sin_rec(x: f64) -> f64 {
        let r = anyf();
        unsafe {
            if SIN_N < 2 {
                SIN_A[SIN_N] = x;
                SIN_R[SIN_N] = r;
            }
            SIN_N += 1;
        }
        r
    }
    static mut COS_N: usize = 0;
    static mut COS_A: [f64; 2] = [0.0; 2];
    static mut COS_R: [f64; 2] = [0.0; 2];
    fn cos_rec(x: f64) -> f64 {
        let r = anyf();
        unsafe {
            if COS_N < 2 {
                COS_A[COS_N] = x;
                COS_R[COS_N] = r;
            }
            COS_N += 1;
        }
        r
    }
    static mut POW_N: usize = 0;
    static mut POW_A: [(f64, i32); 2] = [(0.0, 0); 2];
    static mut POW_R: [f64; 2] = [0.0; 2];
    fn powi_rec(x: f64, n: i32) -> f64 {
        let r = anyf();
        unsafe {
            if POW_N < 2 {
                POW_A[POW_N] = (x, n);
                POW_R[POW_N] = r;
            }
            POW_N += 1;
        }
        r
    }
    static mut SQ_N: usize = 0;
    static mut SQ_A: [f64; 2] = [0.0; 2];
    static mut SQ_R: [f64; 2] = [0.0; 2];
    fn sqrt_rec(x: f64) -> f64 {
        let r = anyf();
        unsafe {
            if SQ_N < 2 {
                SQ_A[SQ_N] = x;
                SQ_R[SQ_N] = r;
            }
            SQ_N += 1;
        }
        r
    }
    static mut AT_N: usize = 0;
    static mut AT_A: (f64, f64) = (0.0, 0.0);
    static mut AT_R: f64 = 0.0;
    fn atan2_rec(y: f64, x: f64) -> f64 {
        let r = anyf();
        unsafe {
            AT_N += 1;
            AT_A = (y, x);
            AT_R = r;
        }
        r
    }

    static mut RAD_N: usize = 0;
    static mut RAD_A: [f64; 4] = [0.0; 4];
    static mut RAD_R: [f64; 4] = [0.0; 4];
    fn rad_rec(d: f64) -> f64 {
        let r = anyf();
        unsafe {
            if RAD_N < 4 {
                RAD_A[RAD_N] = d;
                RAD_R[RAD_N] = r;
            }
            RAD_N += 1;
        }
        r
    }

    //@ob id=C08.haversine props=C08 tier=quick kind=harness fns=plane/update_position.rs:haversine,plane/update_position.rs:degrees_to_radians
    //@region all finite coordinates: distance = 6371 * 2*atan2(sqrt(a), sqrt(1-a)) with a = sin^2(dlat/2) + cos(lat1)*cos(lat2)*sin^2(dlon/2), angles in radians (degree*pi/180)
    #[kani::proof]
    #[kani::stub(f64::sin, sin_rec)]
    #[kani::stub(f64::cos, cos_rec)]
    #[kani::stub(f64::powi, powi_rec)]
    #[kani::stub(f64::sqrt, sqrt_rec)]
    #[kani::stub(f64::atan2, atan2_rec)]
    #[kani::stub(degrees_to_radians, rad_rec)]
    fn c08_haversine() {
        let (la1, lo1, la2, lo2): (f64, f64, f64, f64) = (kani::any(), kani::any(), kani::any(), kani::any()); // only handed to the radians conversion
        kani::assume(la1 >= -90.0 && la1 <= 90.0 && la2 >= -90.0 && la2 <= 90.0);
        kani::assume(lo1 >= -180.0 && lo1 <= 180.0 && lo2 >= -180.0 && lo2 <= 180.0);
        let d = haversine(la1, lo1, la2, lo2);
        unsafe {
            assert!(SIN_N == 2 && COS_N == 2 && POW_N == 2 && SQ_N == 2 && AT_N == 1, "two sines, two cosines, two squares, two roots, one arctangent");
            assert!(RAD_N == 4 && RAD_A[0] == la1 && RAD_A[1] == lo1 && RAD_A[2] == la2 && RAD_A[3] == lo2, "all four coordinates converted to radians");
            let (rla1, rlo1, rla2, rlo2) = (RAD_R[0], RAD_R[1], RAD_R[2], RAD_R[3]);
            assert!(SIN_A[0] == (rla2 - rla1) / 2.0, "sin(dlat/2)");
            assert!(SIN_A[1] == (rlo2 - rlo1) / 2.0, "sin(dlon/2)");
            assert!(POW_A[0] == (SIN_R[0], 2) && POW_A[1] == (SIN_R[1], 2), "both sines squared");
            assert!(COS_A[0] == rla1 && COS_A[1] == rla2, "cos(lat1), cos(lat2)");
            let a = POW_R[0] + COS_R[0] * COS_R[1] * POW_R[1];
            assert!(SQ_A[0] == a && SQ_A[1] == 1.0 - a, "sqrt(a), sqrt(1-a)");
            assert!(AT_A == (SQ_R[0], SQ_R[1]), "atan2(sqrt(a), sqrt(1-a))");
            assert!(d == 6371.0 * (2.0 * AT_R), "Earth radius 6371 km");
        }
        kani::cover!(true, "reach_end");
    }
}
