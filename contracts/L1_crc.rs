//@target src/decoder/utils/crc.rs
//@props C03,C04
//@needs L0_calc
//@attach fn=crc56
//@| #[cfg_attr(kani, kani::requires(crate::verif_spec::valid_msg(message)))]
//@| #[cfg_attr(kani, kani::ensures(|r: &u32| *r == crate::verif_spec::crc24(message, 32)))]
//@attach fn=crc112
//@| #[cfg_attr(kani, kani::requires(crate::verif_spec::valid_msg(message) && message.len() == 28))]
//@| #[cfg_attr(kani, kani::ensures(|r: &u32| *r == crate::verif_spec::crc24(message, 88)))]
// get_crc carries no attached Kani contract (it is replaced by a stand-in in the get_message
// obligations, and Kani cannot stub a function with contract attributes); its contract is the
// harness-form obligation L1.get_crc.* below.

#[cfg(kani)]
mod verif_l1_crc {
    use super::*;
    use crate::verif_spec::h::*;

    //@ob id=L1.crc56.14 props=C03,C04,C01 tier=quick kind=contract fns=utils/crc.rs:crc56 draw=frame14
    //@region all 2^56 short frames: shifted-window division == bit-serial CRC-24 LFSR (generator 0x1FFF409) over the first 32 bits
    #[kani::proof]
    #[kani::unwind(90)]
    #[kani::solver(kissat)]
    fn l1_crc56_14() {
        let m = any_frame14();
        crc56(&m);
        kani::cover!(true, "reach_end");
    }

    //@ob id=L1.crc56.28 props=C03,C01 tier=thorough kind=contract fns=utils/crc.rs:crc56 draw=frame28
    //@region all long frames (get_crc sends a long frame here only for DF<=15, which get_message excludes; kept for completeness)
    #[kani::proof]
    #[kani::unwind(90)]
    #[kani::solver(kissat)]
    fn l1_crc56_28() {
        let m = any_frame28();
        crc56(&m);
        kani::cover!(true, "reach_end");
    }

    //@ob id=L1.crc112 props=C03,C04,C01 tier=quick kind=contract fns=utils/crc.rs:crc112 draw=frame28
    //@region all 2^112 long frames: three-word shifted-window division == bit-serial CRC-24 LFSR over the first 88 bits
    #[kani::proof]
    #[kani::unwind(90)]
    #[kani::solver(kissat)]
    fn l1_crc112() {
        let m = any_frame28();
        crc112(&m);
        kani::cover!(true, "reach_end");
    }

    // get_crc and get_icao are specified RELATIVE to their contracted callees (caller checked
    // against callee): get_crc = dispatch on df between the two routines above, whose results the
    // two contracts above pin to CRC-24.  Kani's proof_for_contract/stub_verified route is not
    // usable here: its instrumentation does not finish on crc112 (measured: > 25 min), so these
    // are harness-form contracts run with --no-assert-contracts (the nested re-assertion of the
    // CRC equivalence would otherwise be repeated in every caller).
    //@ob id=L1.get_crc.14 flags=noassert props=C03,C04,C01 tier=quick kind=harness fns=utils/crc.rs:get_crc draw=frame14
    //@region all short frames x all df<=15: CRC over the first 32 bits (dispatch to the 56-bit routine)
    #[kani::proof]
    #[kani::unwind(90)]
    fn l1_get_crc_14() {
        let m = any_frame14();
        let df: u32 = kani::any();
        kani::assume(df <= 15);
        assert!(get_crc(&m, df) == crc56(&m), "DF0..15: CRC of the 32 data bits");
        kani::cover!(true, "reach_end");
    }

    //@ob id=L1.get_crc.28 flags=noassert props=C03,C04,C01 tier=quick kind=harness fns=utils/crc.rs:get_crc draw=frame28
    //@region all long frames x all df>=16: CRC over the first 88 bits (dispatch to the 112-bit routine)
    #[kani::proof]
    #[kani::unwind(90)]
    fn l1_get_crc_28() {
        let m = any_frame28();
        let df: u32 = kani::any();
        kani::assume(df >= 16);
        assert!(get_crc(&m, df) == crc112(&m), "DF16..: CRC of the 88 data bits");
        kani::cover!(true, "reach_end");
    }
}
