//@target src/decoder/utils/crc.rs
//@props C03,C04
//@needs L0_calc
//@attach fn=crc56
//@| #[cfg_attr(kani, kani::requires(crate::verif_spec::valid_msg(message)))]
//@| #[cfg_attr(kani, kani::ensures(|r: &u32| *r == crate::verif_spec::crc24(message, 32)))]
//@attach fn=crc112
//@| #[cfg_attr(kani, kani::requires(crate::verif_spec::valid_msg(message) && message.len() == 28))]
//@| #[cfg_attr(kani, kani::ensures(|r: &u32| *r == crate::verif_spec::crc24(message, 88)))]
//@attach fn=get_crc
//@| #[cfg_attr(kani, kani::requires(crate::verif_spec::valid_msg(message) && (df <= 15 || message.len() == 28)))]
//@| #[cfg_attr(kani, kani::ensures(|r: &u32| *r == crate::verif_spec::crc24(message, if df <= 15 { 32 } else { 88 })))]

#[cfg(kani)]
mod verif_l1_crc {
    use super::*;
    use crate::verif_spec::h::*;

    //@ob id=L1.crc56.14 props=C03,C04 tier=quick kind=contract fns=utils/crc.rs:crc56 draw=frame14
    //@region all 2^56 short frames: shifted-window division == bit-serial CRC-24 LFSR (generator 0x1FFF409) over the first 32 bits
    #[kani::proof_for_contract(crc56)]
    #[kani::unwind(90)]
    #[kani::solver(kissat)]
    fn l1_crc56_14() {
        let m = any_frame14();
        crc56(&m);
        kani::cover!(true, "reach_end");
    }

    //@ob id=L1.crc56.28 props=C03 tier=thorough kind=contract fns=utils/crc.rs:crc56 draw=frame28
    //@region all long frames (get_crc sends a long frame here only for DF<=15, which get_message excludes; kept for completeness)
    #[kani::proof_for_contract(crc56)]
    #[kani::unwind(90)]
    #[kani::solver(kissat)]
    fn l1_crc56_28() {
        let m = any_frame28();
        crc56(&m);
        kani::cover!(true, "reach_end");
    }

    //@ob id=L1.crc112 props=C03,C04 tier=quick kind=contract fns=utils/crc.rs:crc112 draw=frame28
    //@region all 2^112 long frames: three-word shifted-window division == bit-serial CRC-24 LFSR over the first 88 bits
    #[kani::proof_for_contract(crc112)]
    #[kani::unwind(90)]
    #[kani::solver(kissat)]
    fn l1_crc112() {
        let m = any_frame28();
        crc112(&m);
        kani::cover!(true, "reach_end");
    }

    //@ob id=L1.get_crc.14 props=C03,C04 tier=quick kind=contract fns=utils/crc.rs:get_crc draw=frame14
    //@region all short frames x all df<=15 (dispatch to the 56-bit routine)
    #[kani::proof_for_contract(get_crc)]
    #[kani::stub_verified(crc56)]
    #[kani::stub_verified(crc112)]
    #[kani::unwind(90)]
    fn l1_get_crc_14() {
        let m = any_frame14();
        let df: u32 = kani::any();
        get_crc(&m, df);
        kani::cover!(true, "reach_end");
    }

    //@ob id=L1.get_crc.28 props=C03,C04 tier=quick kind=contract fns=utils/crc.rs:get_crc draw=frame28
    //@region all long frames x all df (dispatch by df)
    #[kani::proof_for_contract(get_crc)]
    #[kani::stub_verified(crc56)]
    #[kani::stub_verified(crc112)]
    #[kani::unwind(90)]
    fn l1_get_crc_28() {
        let m = any_frame28();
        let df: u32 = kani::any();
        get_crc(&m, df);
        kani::cover!(true, "reach_end");
    }
}
