//@target src/decoder/plane.rs
//@props C05,C06,C07,C08,C09,C10,C11,C12,C19
//@needs L0_calc,L1_fields,C05_altitude,C06_squawk,C07_ais,C09_vrate,C03_icao,L1_crc
//@assume clock: chrono::Utc::now is replaced by a ghost-recording stand-in returning an arbitrary instant of year 2026; chrono date arithmetic outside that window is not covered
//@assume row invariant (precondition of every row step, established by altitude()'s own `< 100000` filter): a stored altitude is below 100000 ft; stored f64 values are not NaN

#[cfg(kani)]
pub(crate) mod verif_row {
    use super::*;
    use crate::decoder;
    use crate::decoder::{Capability, Downlink};
    use crate::verif_spec::h::*;
    use chrono::{DateTime, Utc};

    // ---------------------------------------------------------------- ghost clock
    pub static mut G_NOW_DAY: u32 = 0;
    pub static mut G_NOW_SEC: u32 = 0;
    pub static mut G_NOW_CALLS: u32 = 0;
    /// Utc::now stand-in: the FIRST call draws the instant, later calls in the same step
    /// return the same instant (one frame = one receive time).
    pub fn now_rec() -> DateTime<Utc> {
        unsafe {
            if G_NOW_CALLS == 0 {
                let day: u32 = kani::any();
                let sec: u32 = kani::any();
                kani::assume(day >= 1 && day <= 365);
                kani::assume(sec < 86_400);
                G_NOW_DAY = day;
                G_NOW_SEC = sec;
            }
            G_NOW_CALLS += 1;
            mk_time(G_NOW_DAY, G_NOW_SEC)
        }
    }
    pub fn ghost_now() -> DateTime<Utc> {
        unsafe { mk_time(G_NOW_DAY, G_NOW_SEC) }
    }
    pub fn any_time() -> DateTime<Utc> {
        let day: u32 = kani::any();
        let sec: u32 = kani::any();
        kani::assume(day >= 1 && day <= 365);
        kani::assume(sec < 86_400);
        mk_time(day, sec)
    }
    fn any_opt_time() -> Option<DateTime<Utc>> {
        if kani::any() { Some(any_time()) } else { None }
    }
    fn any_f64() -> f64 {
        let x: f64 = kani::any();
        kani::assume(!x.is_nan());
        x
    }
    fn any_opt_f64() -> Option<f64> {
        if kani::any() { Some(any_f64()) } else { None }
    }

    // ---------------------------------------------------------------- symbolic row
    /// An arbitrary row satisfying the row invariant.  `times`: draw the time stamps
    /// symbolically (needed by position/expiry obligations) or fix them (cheaper).
    pub fn any_plane(times: bool) -> Plane {
        let t = |fixed: u32| if times { any_time() } else { mk_time(100, fixed) };
        let ot = |fixed: u32| if times { any_opt_time() } else if kani::any() { Some(mk_time(100, fixed)) } else { None };
        let altitude: Option<u32> = kani::any();
        kani::assume(altitude.map_or(true, |a| a < 100_000));
        let icao: u32 = kani::any();
        kani::assume(icao != 0 && icao <= 0xFF_FFFF);
        Plane {
            icao,
            capability: (kani::any(), Capability::from_data(kani::any(), kani::any(), kani::any(), kani::any(), kani::any(), kani::any())),
            category: (kani::any(), kani::any()),
            reg: "??",
            ais: if kani::any() { Some(String::from("OLDSIGN")) } else { None },
            altitude,
            altitude_gnss: kani::any(),
            altitude_source: kani::any(),
            selected_altitude: kani::any(),
            barometric_pressure_setting: kani::any(),
            target_altitude_source: kani::any(),
            squawk: kani::any(),
            surveillance_status: kani::any(),
            threat_encounter: kani::any(),
            vrate: kani::any(),
            vrate_source: kani::any(),
            cpr_lat: kani::any(),
            cpr_lon: kani::any(),
            cpr_time: [t(10), t(20)],
            lat: any_f64(),
            lon: any_f64(),
            distance_from_observer: any_opt_f64(),
            grspeed: kani::any(),
            true_airspeed: kani::any(),
            indicated_airspeed: kani::any(),
            mach_number: any_opt_f64(),
            ground_movement: any_opt_f64(),
            turn: kani::any(),
            track: kani::any(),
            track_source: kani::any(),
            heading: kani::any(),
            heading_source: kani::any(),
            roll_angle: kani::any(),
            track_angle_rate: kani::any(),
            bds_5_0_timestamp: ot(30),
            temperature: any_opt_f64(),
            wind: kani::any(),
            turbulence: kani::any(),
            humidity: kani::any(),
            pressure: kani::any(),
            timestamp: t(40),
            position_timestamp: ot(50),
            track_timestamp: ot(60),
            heading_timestamp: ot(70),
            last_type_code: kani::any(),
            last_df: kani::any(),
            adsb_version: kani::any(),
        }
    }

    pub fn clone_plane(p: &Plane) -> Plane {
        Plane {
            icao: p.icao,
            capability: (p.capability.0, Capability::from_data(p.capability.1.flags, p.capability.1.bds20, p.capability.1.bds40, p.capability.1.bds44, p.capability.1.bds50, p.capability.1.bds60)),
            category: p.category,
            reg: p.reg,
            ais: p.ais.clone(),
            altitude: p.altitude,
            altitude_gnss: p.altitude_gnss,
            altitude_source: p.altitude_source,
            selected_altitude: p.selected_altitude,
            barometric_pressure_setting: p.barometric_pressure_setting,
            target_altitude_source: p.target_altitude_source,
            squawk: p.squawk,
            surveillance_status: p.surveillance_status,
            threat_encounter: p.threat_encounter,
            vrate: p.vrate,
            vrate_source: p.vrate_source,
            cpr_lat: p.cpr_lat,
            cpr_lon: p.cpr_lon,
            cpr_time: p.cpr_time,
            lat: p.lat,
            lon: p.lon,
            distance_from_observer: p.distance_from_observer,
            grspeed: p.grspeed,
            true_airspeed: p.true_airspeed,
            indicated_airspeed: p.indicated_airspeed,
            mach_number: p.mach_number,
            ground_movement: p.ground_movement,
            turn: p.turn,
            track: p.track,
            track_source: p.track_source,
            heading: p.heading,
            heading_source: p.heading_source,
            roll_angle: p.roll_angle,
            track_angle_rate: p.track_angle_rate,
            bds_5_0_timestamp: p.bds_5_0_timestamp,
            temperature: p.temperature,
            wind: p.wind,
            turbulence: p.turbulence,
            humidity: p.humidity,
            pressure: p.pressure,
            timestamp: p.timestamp,
            position_timestamp: p.position_timestamp,
            track_timestamp: p.track_timestamp,
            heading_timestamp: p.heading_timestamp,
            last_type_code: p.last_type_code,
            last_df: p.last_df,
            adsb_version: p.adsb_version,
        }
    }

    pub fn cap1_eq(a: &Capability, b: &Capability) -> bool {
        a.flags == b.flags && a.bds20 == b.bds20 && a.bds40 == b.bds40 && a.bds44 == b.bds44 && a.bds50 == b.bds50 && a.bds60 == b.bds60
    }

    /// Groups of row fields, each asserted unchanged with a message naming the group.
    pub fn keep_identity(o: &Plane, n: &Plane) {
        assert!(n.icao == o.icao, "frame clause: row address unchanged");
        assert!(n.reg.as_ptr() == o.reg.as_ptr() && n.reg.len() == o.reg.len(), "frame clause: registration country unchanged");
        assert!(n.turn == o.turn, "frame clause: turn unchanged");
    }
    pub fn keep_altitude(o: &Plane, n: &Plane) {
        assert!(n.altitude == o.altitude, "frame clause: altitude unchanged by a format that does not carry it");
        assert!(n.altitude_source == o.altitude_source, "frame clause: altitude source unchanged");
    }
    pub fn keep_gnss(o: &Plane, n: &Plane) {
        assert!(n.altitude_gnss == o.altitude_gnss, "frame clause: GNSS altitude unchanged");
    }
    pub fn keep_squawk(o: &Plane, n: &Plane) {
        assert!(n.squawk == o.squawk, "frame clause: squawk unchanged by a format that does not carry it");
    }
    pub fn keep_callsign(o: &Plane, n: &Plane) {
        assert!(n.ais == o.ais, "frame clause: callsign unchanged by a format that does not carry it");
    }
    pub fn keep_category(o: &Plane, n: &Plane) {
        assert!(n.category == o.category, "frame clause: emitter category unchanged");
    }
    pub fn keep_ca(o: &Plane, n: &Plane) {
        assert!(n.capability.0 == o.capability.0, "frame clause: transponder capability (CA) unchanged");
    }
    pub fn keep_cap17(o: &Plane, n: &Plane) {
        assert!(cap1_eq(&n.capability.1, &o.capability.1), "frame clause: BDS 1,7 capability report unchanged");
    }
    pub fn keep_velocity(o: &Plane, n: &Plane) {
        assert!(n.grspeed == o.grspeed, "frame clause: ground speed unchanged by a format that does not carry it");
        assert!(n.track == o.track, "frame clause: track unchanged by a format that does not carry it");
        assert!(n.track_source == o.track_source, "frame clause: track source unchanged");
    }
    pub fn keep_vrate(o: &Plane, n: &Plane) {
        assert!(n.vrate == o.vrate, "frame clause: vertical rate unchanged by a format that does not carry it");
        assert!(n.vrate_source == o.vrate_source, "frame clause: vertical rate source unchanged");
    }
    pub fn keep_heading(o: &Plane, n: &Plane) {
        assert!(n.heading == o.heading, "frame clause: heading unchanged");
        assert!(n.heading_source == o.heading_source, "frame clause: heading source unchanged");
    }
    pub fn keep_cpr(o: &Plane, n: &Plane) {
        assert!(n.cpr_lat == o.cpr_lat && n.cpr_lon == o.cpr_lon, "frame clause: stored CPR fields unchanged");
        assert!(n.cpr_time == o.cpr_time, "frame clause: stored CPR receive times unchanged");
    }
    pub fn keep_position(o: &Plane, n: &Plane) {
        assert!(n.lat == o.lat && n.lon == o.lon, "frame clause: position unchanged");
        assert!(n.distance_from_observer == o.distance_from_observer, "frame clause: distance unchanged");
        assert!(n.position_timestamp == o.position_timestamp, "frame clause: position time stamp unchanged");
    }
    pub fn keep_surface(o: &Plane, n: &Plane) {
        assert!(n.ground_movement == o.ground_movement, "frame clause: ground movement unchanged");
    }
    pub fn keep_status_version(o: &Plane, n: &Plane) {
        assert!(n.surveillance_status == o.surveillance_status, "frame clause: surveillance status unchanged");
        assert!(n.adsb_version == o.adsb_version, "frame clause: ADS-B version unchanged");
    }
    pub fn keep_type_code(o: &Plane, n: &Plane) {
        assert!(n.last_type_code == o.last_type_code, "frame clause: last type code unchanged");
    }
    /// Everything only a Comm-B (DF20/21 MB field) register can set, except callsign,
    /// velocity, heading and vertical rate which also have squitter carriers.
    pub fn keep_commb_only(o: &Plane, n: &Plane) {
        assert!(n.threat_encounter == o.threat_encounter, "frame clause: ACAS threat flag unchanged");
        assert!(n.selected_altitude == o.selected_altitude, "frame clause: selected altitude unchanged");
        assert!(n.target_altitude_source == o.target_altitude_source, "frame clause: target altitude source unchanged");
        assert!(n.barometric_pressure_setting == o.barometric_pressure_setting, "frame clause: pressure setting unchanged");
        assert!(n.roll_angle == o.roll_angle, "frame clause: roll angle unchanged");
        assert!(n.track_angle_rate == o.track_angle_rate, "frame clause: track angle rate unchanged");
        assert!(n.true_airspeed == o.true_airspeed, "frame clause: true airspeed unchanged");
        assert!(n.indicated_airspeed == o.indicated_airspeed, "frame clause: indicated airspeed unchanged");
        assert!(n.mach_number == o.mach_number, "frame clause: Mach number unchanged");
        assert!(n.bds_5_0_timestamp == o.bds_5_0_timestamp, "frame clause: BDS 5,0 time stamp unchanged");
        assert!(n.track_timestamp == o.track_timestamp, "frame clause: track time stamp unchanged");
        assert!(n.heading_timestamp == o.heading_timestamp, "frame clause: heading time stamp unchanged");
        assert!(n.temperature == o.temperature && n.wind == o.wind && n.humidity == o.humidity && n.turbulence == o.turbulence && n.pressure == o.pressure, "frame clause: meteo data unchanged");
    }

    #[derive(Clone, Copy, PartialEq)]
    pub enum Path {
        Update,
        Downlink,
    }

    /// Apply one frame to a row through the chosen path, exactly as Planes::update_aircraft's
    /// and_modify closure does.
    pub fn apply(p: &mut Plane, m: &[u32], df: u32, relaxed: bool, path: Path) {
        match path {
            Path::Update => p.update(m, df, relaxed),
            Path::Downlink => {
                if let Ok(dl) = decoder::DF::from_message(m) {
                    p.update_from_downlink(&dl);
                } else {
                    assert!(false, "DF::from_message accepts every frame");
                }
            }
        }
    }

    /// C12: every accepted frame restarts the last-contact age, on both paths.
    pub fn check_clock(n: &Plane) {
        assert!(n.timestamp == ghost_now(), "last-contact time stamp = receive time of this frame");
    }
    pub fn check_last_df(o: &Plane, n: &Plane, df: u32, path: Path) {
        match path {
            Path::Update => assert!(n.last_df == df, "last DF recorded"),
            Path::Downlink => assert!(n.last_df == df || n.last_df == o.last_df, "last DF recorded or kept"),
        }
    }

    // ================================================================= short frames
    /// Row step for DF0..15 (56-bit frames): DF4 carries altitude, DF5 squawk, DF11 the CA
    /// capability; nothing else may change.
    pub fn check_short(o: &Plane, n: &Plane, m: &[u32], df: u32, path: Path) {
        check_clock(n);
        check_last_df(o, n, df, path);
        keep_identity(o, n);
        if df == 4 {
            let dec = decoder::altitude(m, df);
            match (dec, path) {
                (Some(_), _) | (None, Path::Update) => {
                    assert!(n.altitude == dec, "DF4: altitude = decoded altitude code");
                    assert!(n.altitude_source == ' ', "DF4: altitude source blank");
                }
                (None, Path::Downlink) => {
                    assert!(n.altitude.is_none() || n.altitude == o.altitude, "DF4 without a valid altitude: blank or previous value");
                }
            }
        } else {
            keep_altitude(o, n);
        }
        if df == 5 {
            assert!(n.squawk == decoder::squawk(m), "DF5: squawk = decoded identity code");
        } else {
            keep_squawk(o, n);
        }
        if df == 11 {
            assert!(n.capability.0 == decoder::get_capability(m), "DF11: transponder capability = CA field");
        } else {
            keep_ca(o, n);
        }
        keep_cap17(o, n);
        keep_gnss(o, n);
        keep_callsign(o, n);
        keep_category(o, n);
        keep_velocity(o, n);
        keep_vrate(o, n);
        keep_heading(o, n);
        keep_cpr(o, n);
        keep_position(o, n);
        keep_surface(o, n);
        keep_status_version(o, n);
        keep_type_code(o, n);
        keep_commb_only(o, n);
    }

    fn short_step(path: Path) {
        let mut m = any_frame14();
        let dfv: u32 = kani::any();
        kani::assume(dfv <= 15);
        set_bits(&mut m, 1, 5, dfv);
        let df = decoder::get_downlink_format(&m).unwrap();
        kani::assume(decoder::get_icao(&m, df).is_some()); // accepted frames have a non-zero address
        let relaxed: bool = kani::any();
        let old = any_plane(false);
        let mut new = clone_plane(&old);
        apply(&mut new, &m, df, relaxed, path);
        check_short(&old, &new, &m, df, path);
        kani::cover!(df == 4, "DF4");
        kani::cover!(df == 5, "DF5");
        kani::cover!(df == 11, "DF11");
        kani::cover!(true, "reach_end");
    }

    //@ob id=L2.step.short.update flags=noassert props=C05,C06,C11,C12 tier=quick kind=harness fns=plane/from_squitter.rs:Plane::update,plane/from_squitter/from_bcast.rs:update_from_bcast draw=frame14
    //@region -U path (Plane::update), all 56-bit frames DF0..15 with non-zero address x all prior row states x -R: DF4 sets altitude, DF5 squawk, DF11 CA; time stamp restarts; every other field unchanged
    #[kani::proof]
    #[kani::unwind(34)]
    #[kani::stub(chrono::Utc::now, now_rec)]
    fn l2_step_short_update() {
        short_step(Path::Update);
    }

    //@ob id=L2.step.short.downlink flags=noassert props=C05,C06,C11,C12,C19 tier=quick kind=harness fns=plane/from_downlink.rs:update_from_downlink,plane/from_downlink/from_srt.rs:update_from_downlink,downlink/short.rs:Srt::update,downlink/dfs.rs:DF::from_message draw=frame14
    //@region default path (DF::from_message + update_from_downlink), same frames and rows: same effect as the -U path
    #[kani::proof]
    #[kani::unwind(34)]
    #[kani::stub(chrono::Utc::now, now_rec)]
    fn l2_step_short_downlink() {
        short_step(Path::Downlink);
    }
}
