//@target src/decoder/plane.rs
//@props C05,C06,C07,C08,C09,C10,C11,C12,C19
//@needs L0_calc,L1_fields,C05_altitude,C06_squawk,C07_ais,C09_vrate,C03_icao,L1_crc
//@assume clock: chrono::Utc::now is replaced by a ghost-recording stand-in returning an arbitrary instant of year 2026; chrono date arithmetic outside that window is not covered
//@assume row invariant (precondition of every row step, established by altitude()'s own `< 100000` filter): a stored altitude is below 100000 ft; stored f64 values are not NaN

#[cfg(kani)]
pub(crate) mod verif_row {
    use super::*;
    use crate::decoder;
    use crate::decoder::{Capability, Downlink};
    use crate::verif_spec::h::*;
    use chrono::{DateTime, Utc};

    // ---------------------------------------------------------------- ghost clock
    pub static mut G_NOW_DAY: u32 = 0;
    pub static mut G_NOW_SEC: u32 = 0;
    pub static mut G_NOW_CALLS: u32 = 0;
    /// Utc::now stand-in: the FIRST call draws the instant, later calls in the same step
    /// return the same instant (one frame = one receive time).
    pub fn now_rec() -> DateTime<Utc> {
        unsafe {
            if G_NOW_CALLS == 0 {
                let day: u32 = kani::any();
                let sec: u32 = kani::any();
                kani::assume(day >= 1 && day <= 365);
                kani::assume(sec < 86_400);
                G_NOW_DAY = day;
                G_NOW_SEC = sec;
            }
            G_NOW_CALLS += 1;
            mk_time(G_NOW_DAY, G_NOW_SEC)
        }
    }
    pub fn ghost_now() -> DateTime<Utc> {
        // day 0 = the clock was never read in this step: a sentinel no row time stamp can equal
        unsafe { if G_NOW_CALLS == 0 { mk_time(366 - 1, 86_399) } else { mk_time(G_NOW_DAY, G_NOW_SEC) } }
    }
    pub fn any_time() -> DateTime<Utc> {
        let day: u32 = kani::any();
        let sec: u32 = kani::any();
        kani::assume(day >= 1 && day <= 365);
        kani::assume(sec < 86_400);
        mk_time(day, sec)
    }
    fn any_opt_time() -> Option<DateTime<Utc>> {
        if kani::any() { Some(any_time()) } else { None }
    }
    fn any_f64() -> f64 {
        let x: f64 = kani::any();
        kani::assume(!x.is_nan());
        x
    }
    fn any_opt_f64() -> Option<f64> {
        if kani::any() { Some(any_f64()) } else { None }
    }

    // ---------------------------------------------------------------- symbolic row
    /// An arbitrary row satisfying the row invariant.  `times`: draw the time stamps
    /// symbolically (needed by position/expiry obligations) or fix them (cheaper).
    pub fn any_plane(times: bool) -> Plane {
        let t = |fixed: u32| if times { any_time() } else { mk_time(100, fixed) };
        let ot = |fixed: u32| if times { any_opt_time() } else if kani::any() { Some(mk_time(100, fixed)) } else { None };
        let altitude: Option<u32> = kani::any();
        kani::assume(altitude.map_or(true, |a| a < 100_000));
        let icao: u32 = kani::any();
        kani::assume(icao != 0 && icao <= 0xFF_FFFF);
        Plane {
            icao,
            capability: (kani::any(), Capability::from_data(kani::any(), kani::any(), kani::any(), kani::any(), kani::any(), kani::any())),
            category: (kani::any(), kani::any()),
            reg: "??",
            ais: if kani::any() { Some(String::from("OLDSIGN")) } else { None },
            altitude,
            altitude_gnss: kani::any(),
            altitude_source: kani::any(),
            selected_altitude: kani::any(),
            barometric_pressure_setting: kani::any(),
            target_altitude_source: kani::any(),
            squawk: kani::any(),
            surveillance_status: kani::any(),
            threat_encounter: kani::any(),
            vrate: kani::any(),
            vrate_source: kani::any(),
            cpr_lat: kani::any(),
            cpr_lon: kani::any(),
            cpr_time: [t(10), t(20)],
            lat: any_f64(),
            lon: any_f64(),
            distance_from_observer: any_opt_f64(),
            grspeed: kani::any(),
            true_airspeed: kani::any(),
            indicated_airspeed: kani::any(),
            mach_number: any_opt_f64(),
            ground_movement: any_opt_f64(),
            turn: kani::any(),
            track: kani::any(),
            track_source: kani::any(),
            heading: kani::any(),
            heading_source: kani::any(),
            roll_angle: kani::any(),
            track_angle_rate: kani::any(),
            bds_5_0_timestamp: ot(30),
            temperature: any_opt_f64(),
            wind: kani::any(),
            turbulence: kani::any(),
            humidity: kani::any(),
            pressure: kani::any(),
            timestamp: t(40),
            position_timestamp: ot(50),
            track_timestamp: ot(60),
            heading_timestamp: ot(70),
            last_type_code: kani::any(),
            last_df: kani::any(),
            adsb_version: kani::any(),
        }
    }

    pub fn clone_plane(p: &Plane) -> Plane {
        Plane {
            icao: p.icao,
            capability: (p.capability.0, Capability::from_data(p.capability.1.flags, p.capability.1.bds20, p.capability.1.bds40, p.capability.1.bds44, p.capability.1.bds50, p.capability.1.bds60)),
            category: p.category,
            reg: p.reg,
            ais: p.ais.clone(),
            altitude: p.altitude,
            altitude_gnss: p.altitude_gnss,
            altitude_source: p.altitude_source,
            selected_altitude: p.selected_altitude,
            barometric_pressure_setting: p.barometric_pressure_setting,
            target_altitude_source: p.target_altitude_source,
            squawk: p.squawk,
            surveillance_status: p.surveillance_status,
            threat_encounter: p.threat_encounter,
            vrate: p.vrate,
            vrate_source: p.vrate_source,
            cpr_lat: p.cpr_lat,
            cpr_lon: p.cpr_lon,
            cpr_time: p.cpr_time,
            lat: p.lat,
            lon: p.lon,
            distance_from_observer: p.distance_from_observer,
            grspeed: p.grspeed,
            true_airspeed: p.true_airspeed,
            indicated_airspeed: p.indicated_airspeed,
            mach_number: p.mach_number,
            ground_movement: p.ground_movement,
            turn: p.turn,
            track: p.track,
            track_source: p.track_source,
            heading: p.heading,
            heading_source: p.heading_source,
            roll_angle: p.roll_angle,
            track_angle_rate: p.track_angle_rate,
            bds_5_0_timestamp: p.bds_5_0_timestamp,
            temperature: p.temperature,
            wind: p.wind,
            turbulence: p.turbulence,
            humidity: p.humidity,
            pressure: p.pressure,
            timestamp: p.timestamp,
            position_timestamp: p.position_timestamp,
            track_timestamp: p.track_timestamp,
            heading_timestamp: p.heading_timestamp,
            last_type_code: p.last_type_code,
            last_df: p.last_df,
            adsb_version: p.adsb_version,
        }
    }

    pub fn cap1_eq(a: &Capability, b: &Capability) -> bool {
        a.flags == b.flags && a.bds20 == b.bds20 && a.bds40 == b.bds40 && a.bds44 == b.bds44 && a.bds50 == b.bds50 && a.bds60 == b.bds60
    }

    /// Groups of row fields, each asserted unchanged with a message naming the group.
    pub fn keep_identity(o: &Plane, n: &Plane) {
        assert!(n.icao == o.icao, "frame clause: row address unchanged");
        assert!(n.reg.as_ptr() == o.reg.as_ptr() && n.reg.len() == o.reg.len(), "frame clause: registration country unchanged");
        assert!(n.turn == o.turn, "frame clause: turn unchanged");
    }
    pub fn keep_altitude(o: &Plane, n: &Plane) {
        assert!(n.altitude == o.altitude, "frame clause: altitude unchanged by a format that does not carry it");
        assert!(n.altitude_source == o.altitude_source, "frame clause: altitude source unchanged");
    }
    pub fn keep_gnss(o: &Plane, n: &Plane) {
        assert!(n.altitude_gnss == o.altitude_gnss, "frame clause: GNSS altitude unchanged");
    }
    pub fn keep_squawk(o: &Plane, n: &Plane) {
        assert!(n.squawk == o.squawk, "frame clause: squawk unchanged by a format that does not carry it");
    }
    pub fn keep_callsign(o: &Plane, n: &Plane) {
        assert!(n.ais == o.ais, "frame clause: callsign unchanged by a format that does not carry it");
    }
    pub fn keep_category(o: &Plane, n: &Plane) {
        assert!(n.category == o.category, "frame clause: emitter category unchanged");
    }
    pub fn keep_ca(o: &Plane, n: &Plane) {
        assert!(n.capability.0 == o.capability.0, "frame clause: transponder capability (CA) unchanged");
    }
    pub fn keep_cap17(o: &Plane, n: &Plane) {
        assert!(cap1_eq(&n.capability.1, &o.capability.1), "frame clause: BDS 1,7 capability report unchanged");
    }
    pub fn keep_velocity(o: &Plane, n: &Plane) {
        assert!(n.grspeed == o.grspeed, "frame clause: ground speed unchanged by a format that does not carry it");
        assert!(n.track == o.track, "frame clause: track unchanged by a format that does not carry it");
        assert!(n.track_source == o.track_source, "frame clause: track source unchanged");
    }
    pub fn keep_vrate(o: &Plane, n: &Plane) {
        assert!(n.vrate == o.vrate, "frame clause: vertical rate unchanged by a format that does not carry it");
        assert!(n.vrate_source == o.vrate_source, "frame clause: vertical rate source unchanged");
    }
    pub fn keep_heading(o: &Plane, n: &Plane) {
        assert!(n.heading == o.heading, "frame clause: heading unchanged");
        assert!(n.heading_source == o.heading_source, "frame clause: heading source unchanged");
    }
    pub fn keep_cpr(o: &Plane, n: &Plane) {
        assert!(n.cpr_lat == o.cpr_lat && n.cpr_lon == o.cpr_lon, "frame clause: stored CPR fields unchanged");
        assert!(n.cpr_time == o.cpr_time, "frame clause: stored CPR receive times unchanged");
    }
    pub fn keep_position(o: &Plane, n: &Plane) {
        assert!(n.lat == o.lat && n.lon == o.lon, "frame clause: position unchanged");
        assert!(n.distance_from_observer == o.distance_from_observer, "frame clause: distance unchanged");
        assert!(n.position_timestamp == o.position_timestamp, "frame clause: position time stamp unchanged");
    }
    pub fn keep_surface(o: &Plane, n: &Plane) {
        assert!(n.ground_movement == o.ground_movement, "frame clause: ground movement unchanged");
    }
    pub fn keep_status_version(o: &Plane, n: &Plane) {
        assert!(n.surveillance_status == o.surveillance_status, "frame clause: surveillance status unchanged");
        assert!(n.adsb_version == o.adsb_version, "frame clause: ADS-B version unchanged");
    }
    pub fn keep_type_code(o: &Plane, n: &Plane) {
        assert!(n.last_type_code == o.last_type_code, "frame clause: last type code unchanged");
    }
    /// Everything only a Comm-B (DF20/21 MB field) register can set, except callsign,
    /// velocity, heading and vertical rate which also have squitter carriers.
    pub fn keep_commb_only(o: &Plane, n: &Plane) {
        assert!(n.threat_encounter == o.threat_encounter, "frame clause: ACAS threat flag unchanged");
        assert!(n.selected_altitude == o.selected_altitude, "frame clause: selected altitude unchanged");
        assert!(n.target_altitude_source == o.target_altitude_source, "frame clause: target altitude source unchanged");
        assert!(n.barometric_pressure_setting == o.barometric_pressure_setting, "frame clause: pressure setting unchanged");
        assert!(n.roll_angle == o.roll_angle, "frame clause: roll angle unchanged");
        assert!(n.track_angle_rate == o.track_angle_rate, "frame clause: track angle rate unchanged");
        assert!(n.true_airspeed == o.true_airspeed, "frame clause: true airspeed unchanged");
        assert!(n.indicated_airspeed == o.indicated_airspeed, "frame clause: indicated airspeed unchanged");
        assert!(n.mach_number == o.mach_number, "frame clause: Mach number unchanged");
        assert!(n.bds_5_0_timestamp == o.bds_5_0_timestamp, "frame clause: BDS 5,0 time stamp unchanged");
        assert!(n.track_timestamp == o.track_timestamp, "frame clause: track time stamp unchanged");
        assert!(n.heading_timestamp == o.heading_timestamp, "frame clause: heading time stamp unchanged");
        assert!(n.temperature == o.temperature && n.wind == o.wind && n.humidity == o.humidity && n.turbulence == o.turbulence && n.pressure == o.pressure, "frame clause: meteo data unchanged");
    }

    #[derive(Clone, Copy, PartialEq)]
    pub enum Path {
        Update,
        Downlink,
    }

    /// Apply one frame to a row through the chosen path, exactly as Planes::update_aircraft's
    /// and_modify closure does.
    pub fn apply(p: &mut Plane, m: &[u32], df: u32, relaxed: bool, path: Path) {
        match path {
            Path::Update => p.update(m, df, relaxed),
            Path::Downlink => {
                if let Ok(dl) = decoder::DF::from_message(m) {
                    p.update_from_downlink(&dl);
                } else {
                    assert!(false, "DF::from_message accepts every frame");
                }
            }
        }
    }

    /// C12: every accepted frame restarts the last-contact age, on both paths.
    pub fn check_clock(n: &Plane) {
        assert!(unsafe { G_NOW_CALLS } >= 1, "the receive time of this frame is taken");
        assert!(n.timestamp == ghost_now(), "last-contact time stamp = receive time of this frame");
    }
    pub fn check_last_df(o: &Plane, n: &Plane, df: u32, path: Path) {
        match path {
            Path::Update => assert!(n.last_df == df, "last DF recorded"),
            Path::Downlink => assert!(n.last_df == df || n.last_df == o.last_df, "last DF recorded or kept"),
        }
    }

    // ================================================================= short frames
    /// Row step for DF0..15 (56-bit frames): DF4 carries altitude, DF5 squawk, DF11 the CA
    /// capability; nothing else may change.
    pub fn check_short(o: &Plane, n: &Plane, m: &[u32], df: u32, path: Path) {
        check_clock(n);
        check_last_df(o, n, df, path);
        keep_identity(o, n);
        if df == 4 {
            let dec = decoder::altitude(m, df);
            match (dec, path) {
                (Some(_), _) | (None, Path::Update) => {
                    assert!(n.altitude == dec, "DF4: altitude = decoded altitude code");
                    assert!(n.altitude_source == ' ', "DF4: altitude source blank");
                }
                (None, Path::Downlink) => {
                    assert!(n.altitude.is_none() || n.altitude == o.altitude, "DF4 without a valid altitude: blank or previous value");
                }
            }
        } else {
            keep_altitude(o, n);
        }
        if df == 5 {
            assert!(n.squawk == decoder::squawk(m), "DF5: squawk = decoded identity code");
        } else {
            keep_squawk(o, n);
        }
        if df == 11 {
            assert!(n.capability.0 == decoder::get_capability(m), "DF11: transponder capability = CA field");
        } else {
            keep_ca(o, n);
        }
        keep_cap17(o, n);
        keep_gnss(o, n);
        keep_callsign(o, n);
        keep_category(o, n);
        keep_velocity(o, n);
        keep_vrate(o, n);
        keep_heading(o, n);
        keep_cpr(o, n);
        keep_position(o, n);
        keep_surface(o, n);
        keep_status_version(o, n);
        keep_type_code(o, n);
        keep_commb_only(o, n);
    }

    // ================================================================= extended squitters (DF17)
    // Ghost-recording stand-ins for the float-heavy callees of the position and velocity
    // updates; their own contracts are separate obligations (C08.*, C09.velocity.*).
    pub static mut G_TGS_CALLS: u32 = 0;
    pub static mut G_TGS_MSG: *const u32 = core::ptr::null();
    pub static mut G_TGS_SS: bool = false;
    pub static mut G_TGS_RET: (Option<u32>, Option<u32>) = (None, None);
    pub fn tgs_rec(message: &[u32], is_supersonic: bool) -> (Option<u32>, Option<u32>) {
        unsafe {
            if G_TGS_CALLS == 0 {
                G_TGS_RET = (kani::any(), kani::any());
            }
            G_TGS_CALLS += 1;
            G_TGS_MSG = message.as_ptr();
            G_TGS_SS = is_supersonic;
            G_TGS_RET
        }
    }
    pub static mut G_LOC_CALLS: u32 = 0;
    pub static mut G_LOC_ARGS: ([u32; 2], [u32; 2], u32, i32) = ([0; 2], [0; 2], 9, 0);
    pub static mut G_LOC_SOME: bool = false;
    pub static mut G_LOC_LAT: f64 = 0.0;
    pub static mut G_LOC_LON: f64 = 0.0;
    pub fn loc_rec(cpr_lat: &[u32; 2], cpr_lon: &[u32; 2], cpr_form: u32, coeff: i32) -> Option<(f64, f64)> {
        unsafe {
            if G_LOC_CALLS == 0 {
                G_LOC_SOME = kani::any();
                G_LOC_LAT = kani::any();
                G_LOC_LON = kani::any();
            }
            G_LOC_CALLS += 1;
            G_LOC_ARGS = (*cpr_lat, *cpr_lon, cpr_form, coeff);
            if G_LOC_SOME { Some((G_LOC_LAT, G_LOC_LON)) } else { None }
        }
    }
    pub static mut G_OBS_SOME: bool = false;
    pub static mut G_OBS: (f64, f64) = (0.0, 0.0);
    pub static mut G_OBS_INIT: bool = false;
    pub fn obs_rec() -> Option<(f64, f64)> {
        unsafe {
            if !G_OBS_INIT {
                G_OBS_INIT = true;
                G_OBS_SOME = kani::any();
                let (a, b): (f64, f64) = (kani::any(), kani::any());
                kani::assume(!a.is_nan() && !b.is_nan());
                G_OBS = (a, b);
            }
            if G_OBS_SOME { Some(G_OBS) } else { None }
        }
    }
    pub static mut G_HAV_CALLS: u32 = 0;
    pub static mut G_HAV_ARGS: (f64, f64, f64, f64) = (0.0, 0.0, 0.0, 0.0);
    pub static mut G_HAV_RET: f64 = 0.0;
    pub fn hav_rec(lat1: f64, lon1: f64, lat2: f64, lon2: f64) -> f64 {
        unsafe {
            if G_HAV_CALLS == 0 {
                let r: f64 = kani::any();
                kani::assume(!r.is_nan());
                G_HAV_RET = r;
            }
            G_HAV_CALLS += 1;
            G_HAV_ARGS = (lat1, lon1, lat2, lon2);
            G_HAV_RET
        }
    }

    // Callsign decoder stand-in: fixed distinguishable result, records which frame it was asked
    // about (the decoder's own contract is C07.ais.*).  Keeps symbolic-length Strings out of
    // the row-step obligations.
    pub static mut G_AIS_CALLS: u32 = 0;
    pub static mut G_AIS_MSG: *const u32 = core::ptr::null();
    pub fn ais_rec(message: &[u32]) -> Option<String> {
        unsafe {
            G_AIS_CALLS += 1;
            G_AIS_MSG = message.as_ptr();
        }
        Some(String::from("NEWSIGN"))
    }
    pub fn is_new_callsign(p: &Plane, m: &[u32]) -> bool {
        unsafe { G_AIS_CALLS >= 1 && G_AIS_MSG == m.as_ptr() && p.ais.as_deref().map_or(false, |s| str_eq(s, "NEWSIGN")) }
    }

    // Position-update stand-in for the handlers that store a CPR slot and then ask for a
    // position update: records its arguments and the row's CPR slots at the time of the call.
    pub static mut G_POS_CALLS: u32 = 0;
    pub static mut G_POS_ARGS: (u32, u32) = (0, 0);
    pub static mut G_POS_LAT: [u32; 2] = [0; 2];
    pub static mut G_POS_LON: [u32; 2] = [0; 2];
    pub static mut G_POS_T_EQ: bool = false;
    pub fn pos_rec(p: &mut Plane, message_type: u32, cpr_form: u32) {
        unsafe {
            G_POS_CALLS += 1;
            G_POS_ARGS = (message_type, cpr_form);
            G_POS_LAT = p.cpr_lat;
            G_POS_LON = p.cpr_lon;
            G_POS_T_EQ = cpr_form <= 1 && p.cpr_time[cpr_form as usize] == p.timestamp;
        }
    }
    /// A TC5-18 handler stores this frame's CPR triple in the slot of its parity, stamps it with
    /// the row's (just refreshed) time stamp, and then asks for a position update of that slot.
    pub fn check_cpr_store(o: &Plane, n: &Plane, m: &[u32], tc: u32) {
        let (f, la, lo) = decoder::cpr(m).unwrap();
        let fi = f as usize;
        let other = 1 - fi;
        assert!(n.cpr_lat[fi] == la && n.cpr_lon[fi] == lo, "CPR fields of this frame stored in the slot of its parity");
        assert!(n.cpr_time[fi] == n.timestamp, "CPR receive time of this frame = the row's time stamp (its receive time)");
        assert!(n.cpr_lat[other] == o.cpr_lat[other] && n.cpr_lon[other] == o.cpr_lon[other] && n.cpr_time[other] == o.cpr_time[other], "the other parity's stored CPR data unchanged");
        unsafe {
            assert!(G_POS_CALLS == 1 && G_POS_ARGS == (tc, f), "position update requested once, for this type code and parity");
            assert!(G_POS_LAT == n.cpr_lat && G_POS_LON == n.cpr_lon && G_POS_T_EQ, "position update sees the freshly stored slot");
        }
    }

    /// C08 pairing rule on the row AFTER the frame's CPR fields were stored.
    pub fn pair_ok(n_lat: &[u32; 2], n_lon: &[u32; 2], t: &[DateTime<Utc>; 2]) -> bool {
        n_lat[0] != 0 && n_lat[1] != 0 && n_lon[0] != 0 && n_lon[1] != 0
            && t[0].signed_duration_since(t[1]).num_seconds().abs() < 10
    }

    /// CPR storage + position update of a TC5..18 frame (C08 (c)).
    pub fn check_cpr_and_position(o: &Plane, n: &Plane, m: &[u32], tc: u32) {
        let (f, la, lo) = decoder::cpr(m).unwrap();
        let fi = f as usize;
        let other = 1 - fi;
        assert!(n.cpr_lat[fi] == la && n.cpr_lon[fi] == lo, "CPR fields of this frame stored in the slot of its parity");
        assert!(n.cpr_time[fi] == ghost_now(), "CPR receive time of this frame = its receive time");
        assert!(n.cpr_lat[other] == o.cpr_lat[other] && n.cpr_lon[other] == o.cpr_lon[other] && n.cpr_time[other] == o.cpr_time[other], "the other parity's stored CPR data unchanged");
        let paired = pair_ok(&n.cpr_lat, &n.cpr_lon, &n.cpr_time);
        let mut committed = false;
        unsafe {
            if paired {
                assert!(G_LOC_CALLS == 1, "valid even/odd pair: global decode evaluated once");
                let coeff = if tc <= 8 { 4 } else { 1 };
                assert!(G_LOC_ARGS.0 == n.cpr_lat && G_LOC_ARGS.1 == n.cpr_lon && G_LOC_ARGS.2 == f && G_LOC_ARGS.3 == coeff, "global decode of the stored pair, anchored on this frame's parity");
                if G_LOC_SOME && G_LOC_LAT >= -90.0 && G_LOC_LAT <= 90.0 && G_LOC_LON >= -180.0 && G_LOC_LON <= 180.0 {
                    committed = true;
                }
            }
            if committed {
                assert!(n.lat == G_LOC_LAT && n.lon == G_LOC_LON, "position = global CPR decode of the pair");
                assert!(n.position_timestamp == Some(ghost_now()), "position time stamp = receive time");
                if G_OBS_SOME {
                    assert!(G_HAV_CALLS == 1 && G_HAV_ARGS == (G_LOC_LAT, G_LOC_LON, G_OBS.0, G_OBS.1), "distance = great-circle distance from the new position to the observer");
                    assert!(n.distance_from_observer == Some(G_HAV_RET), "distance column = that distance");
                } else {
                    assert!(n.distance_from_observer == o.distance_from_observer, "no observer: distance unchanged");
                }
            } else {
                assert!(n.lat == o.lat && n.lon == o.lon, "no valid pair / zone-straddling / out of range: position left as it was");
                assert!(n.distance_from_observer == o.distance_from_observer, "no new position: distance left as it was");
                assert!(n.position_timestamp == o.position_timestamp, "no new position: position time stamp left as it was");
            }
        }
    }

    /// Row step for a DF17 frame, by type code.
    pub fn check_ext(o: &Plane, n: &Plane, m: &[u32], path: Path) {
        let df = 17;
        let (tc, st) = decoder::get_message_type(m);
        check_clock(n);
        check_last_df(o, n, df, path);
        keep_identity(o, n);
        assert!(n.capability.0 == o.capability.0 || n.capability.0 == decoder::get_capability(m), "DF17: CA capability kept or recorded from the CA field");
        keep_cap17(o, n);
        keep_squawk(o, n);
        keep_commb_only(o, n);
        assert!(n.last_type_code == tc, "last type code recorded");
        // callsign / category: TC 1-4
        if tc >= 1 && tc <= 4 {
            assert!(n.ais == decoder::ais(m), "TC1-4: callsign = decoded identification");
            assert!(n.category == (tc, st), "TC1-4: emitter category = (type code, category)");
        } else {
            keep_callsign(o, n);
            keep_category(o, n);
        }
        // altitude: TC 9-18 carry it, a surface squitter (TC 5-8) blanks it
        if tc >= 9 && tc <= 18 {
            assert!(n.altitude == decoder::altitude(m, df), "TC9-18: altitude = decoded AC12");
            assert!(n.altitude_source == ' ', "TC9-18: altitude source blank");
        } else if tc >= 5 && tc <= 8 {
            assert!(n.altitude.is_none(), "TC5-8 surface position: altitude blanked");
            assert!(n.altitude_source == '\u{2070}', "TC5-8: altitude source mark");
        } else if tc == 19 && (st == 3 || st == 4) {
            assert!(n.altitude == o.altitude, "TC19: altitude unchanged");
            assert!(n.altitude_source == '"', "TC19 subtype 3/4: altitude source mark");
        } else {
            keep_altitude(o, n);
        }
        // surveillance status: TC 9-18 and 20-22
        if (tc >= 9 && tc <= 18) || (tc >= 20 && tc <= 22) {
            assert!(n.surveillance_status == decoder::surveillance_status(m), "TC9-18/20-22: surveillance status");
        } else {
            assert!(n.surveillance_status == o.surveillance_status, "frame clause: surveillance status unchanged");
        }
        // ADS-B version: TC 31
        if tc == 31 {
            assert!(n.adsb_version == decoder::version(m), "TC31: ADS-B version");
        } else {
            assert!(n.adsb_version == o.adsb_version, "frame clause: ADS-B version unchanged");
        }
        // GNSS altitude: TC 20-22 directly, TC19 as barometric altitude + delta
        if tc >= 20 && tc <= 22 {
            assert!(n.altitude_gnss == decoder::altitude_gnss(m), "TC20-22: GNSS altitude");
        } else if tc == 19 {
            match (o.altitude, decoder::altitude_delta(m)) {
                (Some(a), Some(d)) => assert!(n.altitude_gnss == Some((a as i32 + d) as u32), "TC19: GNSS altitude = barometric + delta"),
                _ => assert!(n.altitude_gnss == o.altitude_gnss, "TC19 without altitude or delta: GNSS altitude unchanged"),
            }
        } else {
            keep_gnss(o, n);
        }
        // velocity: TC19 subtype 1/2; surface squitter sets track from the ground track field
        if tc == 19 {
            assert!(n.vrate == decoder::vertical_rate(m), "TC19: vertical rate = decoded field");
            assert!(n.vrate_source == ' ', "TC19: vertical rate source blank");
            if st == 1 || st == 2 {
                unsafe {
                    assert!(G_TGS_CALLS >= 1 && G_TGS_MSG == m.as_ptr() && G_TGS_SS == (st == 2), "TC19 subtype 1/2: velocity decoded from this frame with the subtype's unit");
                    assert!(n.track == G_TGS_RET.0, "TC19 subtype 1/2: track = decoded track");
                    assert!(n.grspeed == G_TGS_RET.1, "TC19 subtype 1/2: ground speed = decoded ground speed");
                }
                assert!(n.track_source == if st == 1 { '\u{2081}' } else { '\u{2082}' }, "TC19 subtype 1/2: track source mark");
                keep_heading(o, n);
            } else if st == 3 || st == 4 {
                assert!(n.heading == decoder::heading(m), "TC19 subtype 3/4: heading");
                assert!(n.heading_source == '\u{2083}', "TC19 subtype 3/4: heading source mark");
                keep_velocity(o, n);
            } else {
                keep_velocity(o, n);
                keep_heading(o, n);
            }
        } else {
            keep_vrate(o, n);
            keep_heading(o, n);
            if tc >= 5 && tc <= 8 {
                assert!(n.track == decoder::ground_track(m), "TC5-8: track = ground track field");
                assert!(n.track_source == ' ' || n.track_source == '\u{2070}', "TC5-8: track source mark");
                assert!(n.grspeed == o.grspeed, "frame clause: ground speed unchanged");
            } else {
                keep_velocity(o, n);
            }
        }
        if tc >= 5 && tc <= 8 {
            assert!(n.ground_movement == decoder::ground_movement(m), "TC5-8: ground movement");
        } else {
            keep_surface(o, n);
        }
        // position
        if tc >= 5 && tc <= 18 {
            check_cpr_and_position(o, n, m, tc);
        } else {
            keep_cpr(o, n);
            keep_position(o, n);
        }
    }
}
