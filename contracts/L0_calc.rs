//@target src/decoder/utils/calc.rs
//@props *
//@attach fn=bit_location
//@| #[cfg_attr(kani, kani::requires(position >= 1))]
//@| #[cfg_attr(kani, kani::ensures(|r: &(usize, usize)| r.0 == ((position - 1) / 4) as usize && r.1 == ((position - 1) % 4) as usize))]
//@attach fn=range_value
//@| #[cfg_attr(kani, kani::requires(crate::verif_spec::valid_msg(message) && 1 <= sb && sb <= eb && eb <= 4 * message.len() as u32 && eb - sb < 32))]
//@| #[cfg_attr(kani, kani::ensures(|r: &Option<u32>| *r == Some(crate::verif_spec::bits(message, sb, eb))))]
//@attach fn=flag_and_range_value
//@| #[cfg_attr(kani, kani::requires(crate::verif_spec::valid_msg(message) && flag <= 4 * message.len() as u32 && 1 <= sb && sb <= eb && eb <= 4 * message.len() as u32 && eb - sb < 32))]
//@| #[cfg_attr(kani, kani::ensures(|r: &Option<(u32, u32)>| *r == Some((if flag == 0 { 0 } else { crate::verif_spec::bit(message, flag) }, crate::verif_spec::bits(message, sb, eb)))))]
//@attach fn=status_flag_and_range_value
//@| #[cfg_attr(kani, kani::requires(crate::verif_spec::valid_msg(message) && status <= 4 * message.len() as u32 && flag <= 4 * message.len() as u32 && 1 <= sb && sb <= eb && eb <= 4 * message.len() as u32 && eb - sb < 32))]
//@| #[cfg_attr(kani, kani::ensures(|r: &Option<(u32, u32, u32)>| *r == Some((if status == 0 { 0 } else { crate::verif_spec::bit(message, status) }, if flag == 0 { 0 } else { crate::verif_spec::bit(message, flag) }, crate::verif_spec::bits(message, sb, eb)))))]

#[cfg(kani)]
mod verif_l0_calc {
    use super::*;
    use crate::verif_spec::h::*;

    //@ob id=L0.bit_location props=C01 tier=quick kind=contract fns=utils/calc.rs:bit_location
    //@region every 1-based bit position of u32
    #[kani::proof_for_contract(bit_location)]
    fn l0_bit_location() {
        let p: u32 = kani::any();
        bit_location(p);
        kani::cover!(true, "reach_end");
    }

    //@ob id=L0.range_value.28 props=C01,C02,C03 tier=quick kind=contract fns=utils/calc.rs:range_value
    //@region all 112-bit frames x all 1<=sb<=eb<=112 with eb-sb<32
    #[kani::proof_for_contract(range_value)]
    #[kani::unwind(34)]
    fn l0_range_value_28() {
        let m = any_frame28();
        let sb: u32 = kani::any();
        let eb: u32 = kani::any();
        range_value(&m, sb, eb);
        kani::cover!(true, "reach_end");
    }

    //@ob id=L0.range_value.14 props=C01,C02,C03 tier=quick kind=contract fns=utils/calc.rs:range_value
    //@region all 56-bit frames x all 1<=sb<=eb<=56 with eb-sb<32
    #[kani::proof_for_contract(range_value)]
    #[kani::unwind(34)]
    fn l0_range_value_14() {
        let m = any_frame14();
        let sb: u32 = kani::any();
        let eb: u32 = kani::any();
        range_value(&m, sb, eb);
        kani::cover!(true, "reach_end");
    }

    //@ob id=L0.flag_and_range_value.28 props=C01 tier=quick kind=contract fns=utils/calc.rs:flag_and_range_value
    //@region all 112-bit frames x all flag positions (0 = none) x all ranges
    #[kani::proof_for_contract(flag_and_range_value)]
    #[kani::stub_verified(range_value)]
    #[kani::unwind(34)]
    fn l0_flag_and_range_value_28() {
        let m = any_frame28();
        let flag: u32 = kani::any();
        let sb: u32 = kani::any();
        let eb: u32 = kani::any();
        flag_and_range_value(&m, flag, sb, eb);
        kani::cover!(true, "reach_end");
    }

    //@ob id=L0.status_flag_and_range_value.28 props=C01 tier=quick kind=contract fns=utils/calc.rs:status_flag_and_range_value
    //@region all 112-bit frames x all status/flag positions x all ranges
    #[kani::proof_for_contract(status_flag_and_range_value)]
    #[kani::stub_verified(flag_and_range_value)]
    #[kani::unwind(34)]
    fn l0_status_flag_and_range_value_28() {
        let m = any_frame28();
        let status: u32 = kani::any();
        let flag: u32 = kani::any();
        let sb: u32 = kani::any();
        let eb: u32 = kani::any();
        status_flag_and_range_value(&m, status, flag, sb, eb);
        kani::cover!(true, "reach_end");
    }
}
