//@target src/decoder/adsb/position.rs
//@props C08,C01
//@frem src/decoder/adsb/position.rs
//@assume C08 claims "position = the published global CPR decode of the stored pair" (integer zone indices exact, latitudes within 1e-9 degree, longitude bit-exact for the same zone count); that the published decode is within 20 m of the encoded position (5.1 m resolution of 17-bit CPR) is a theorem about the algorithm + the encoder, not about this code, and is NOT decided here
//@assume in C08.cpr_location.airborne the NL lookup is a ghost recorder returning arbitrary zone counts (its own contract: C08.nl, all non-NaN f64)

#[cfg(kani)]
mod verif_c08_position {
    use super::*;
    use crate::verif_spec as vs;

    //@ob id=C08.nl props=C08,C01 tier=quick kind=harness fns=adsb/position.rs:nl
    //@region every non-NaN f64 latitude: NL = 59 minus the number of the 58 formula-derived boundaries at or below |lat| (each boundary a potential off-by-one)
    #[kani::proof]
    #[kani::unwind(60)]
    fn c08_nl() {
        let lat: f64 = kani::any();
        kani::assume(!lat.is_nan());
        assert!(nl(lat) == vs::spec_nl(lat), "NL(lat) = published zone count");
        kani::cover!(lat > 86.9 && lat < 87.1, "near the pole");
        kani::cover!(true, "reach_end");
    }

    //@ob id=C08.pmod props=C08,C01 tier=quick kind=harness fns=adsb/position.rs:pmod
    //@region every i32 x and every divisor 1..=59 (the range of longitude zone counts n_i it is called with): pmod = Euclidean remainder in [0, y)
    #[kani::proof]
    #[kani::unwind(61)]
    #[kani::solver(z3)]
    fn c08_pmod() {
        let x: i32 = kani::any();
        let mut y: i32 = 1;
        while y <= 59 {
            assert!(pmod(x, y) == x.rem_euclid(y), "positive modulo");
            y += 1;
        }
        kani::cover!(x < 0, "negative dividend");
        kani::cover!(true, "reach_end");
    }

    static mut G_NL_CALLS: usize = 0;
    static mut G_NL_ARG: [f64; 2] = [0.0; 2];
    static mut G_NL_RET: [i32; 2] = [0; 2];
    static mut G_NL_FIXED: i32 = 0; // 0 = arbitrary per call
    fn nl_rec(lat: f64) -> i32 {
        let n: i32 = if unsafe { G_NL_FIXED } != 0 { unsafe { G_NL_FIXED } } else { kani::any() };
        kani::assume(n >= 1 && n <= 59);
        unsafe {
            let k = G_NL_CALLS;
            G_NL_CALLS += 1;
            if k < 2 {
                G_NL_ARG[k] = lat;
                G_NL_RET[k] = n;
            }
        }
        n
    }

    //@ob id=C08.cpr_location.no_panic props=C01 tier=quick kind=harness fns=adsb/position.rs:cpr_location
    //@region all 4 x 17-bit CPR fields, both parities, airborne and surface (quarter-zone) decode with the real NL lookup: no panic, no overflow, no division by zero
    #[kani::proof]
    #[kani::unwind(60)]
    fn c08_cpr_location_no_panic() {
        let lat: [u32; 2] = kani::any();
        let lon: [u32; 2] = kani::any();
        kani::assume(lat[0] < (1 << 17) && lat[1] < (1 << 17) && lon[0] < (1 << 17) && lon[1] < (1 << 17));
        let form: u32 = kani::any();
        kani::assume(form <= 1);
        let coeff: i32 = if kani::any() { 1 } else { 4 };
        let _ = cpr_location(&lat, &lon, form, coeff);
        kani::cover!(true, "reach_end");
    }

    // One CPR pair with literal arguments (so that CBMC folds the float arithmetic; a table lookup
    // keeps the values symbolic to it).  Vectors: tools/gen_cpr_samples.py (independent encoder).
    fn chk(la0: u32, lo0: u32, la1: u32, lo1: u32, form: u32, same: u32, tlat: f64, tlon: f64, tol_lat: f64, tol_lon: f64) {
        match cpr_location(&[la0, la1], &[lo0, lo1], form, 1) {
            Some((la, lon)) => {
                let mut dl = lon - tlon;
                if dl > 180.0 {
                    dl -= 360.0;
                } else if dl < -180.0 {
                    dl += 360.0;
                }
                let dla = la - tlat;
                assert!(dla < tol_lat && dla > -tol_lat, "decoded latitude within ~13 m of the encoded position");
                assert!(dl < tol_lon && dl > -tol_lon, "decoded longitude within ~13 m of the encoded position");
            }
            None => assert!(same == 0, "a pair from one latitude zone decodes to a position"),
        }
    }

    //@ob id=C08.cpr_location.samples.00 props=C08 tier=quick kind=harness fns=adsb/position.rs:cpr_location bounded=6-concrete-pairs
    //@region BOUNDED stand-in for the decode arithmetic (the all-input equivalence obligations C08.cpr_location.latitude/.longitude did not finish in 200 min): the real cpr_location on CPR pairs produced by an independent encoder for true positions in every NL zone, both hemispheres, both anchor parities, longitudes incl. the antimeridian and Greenwich: result within ~13 m of the true position (samples 0..6 of 126)
    #[kani::proof]
    #[kani::unwind(60)]
    fn c08_cpr_location_samples_00() {
        chk(114365, 3, 112459, 3, 1, 1, 5.2352356, 0.0001300, 1.200e-04, 1.205e-04);
        chk(16707, 84193, 18613, 82766, 0, 1, -5.2352356, 3.9193700, 1.200e-04, 1.205e-04);
        chk(14185, 131068, 9579, 131068, 0, 1, 12.6493228, -0.0002100, 1.200e-04, 1.230e-04);
        chk(14185, 131068, 9579, 131068, 1, 1, 12.6493228, -0.0002100, 1.200e-04, 1.230e-04);
        chk(32610, 65517, 38620, 131054, 0, 1, -16.5072190, 179.9991000, 1.200e-04, 1.252e-04);
        chk(35124, 16, 27985, 65552, 1, 1, 19.6078292, -179.9992000, 1.200e-04, 1.274e-04);
        kani::cover!(true, "reach_end");
    }
    //@ob id=C08.cpr_location.samples.01 props=C08 tier=quick kind=harness fns=adsb/position.rs:cpr_location bounded=6-concrete-pairs
    //@region BOUNDED stand-in for the decode arithmetic (the all-input equivalence obligations C08.cpr_location.latitude/.longitude did not finish in 200 min): the real cpr_location on CPR pairs produced by an independent encoder for true positions in every NL zone, both hemispheres, both anchor parities, longitudes incl. the antimeridian and Greenwich: result within ~13 m of the true position (samples 6..12 of 126)
    #[kani::proof]
    #[kani::unwind(60)]
    fn c08_cpr_location_samples_01() {
        chk(95948, 10194, 103087, 108316, 0, 1, -19.6078292, 90.5000000, 1.200e-04, 1.274e-04);
        chk(95948, 10194, 103087, 108316, 1, 1, -19.6078292, 90.5000000, 1.200e-04, 1.274e-04);
        chk(93656, 18161, 85541, 63111, 1, 1, 22.2872199, -123.4567000, 1.200e-04, 1.297e-04);
        chk(116061, 98306, 125049, 81922, 0, 1, -24.6871460, 45.0001000, 1.200e-04, 1.321e-04);
        chk(63004, 49154, 53216, 65538, 0, 1, 26.8841171, -44.9999000, 1.200e-04, 1.345e-04);
        chk(63004, 49154, 53216, 65538, 1, 1, 26.8841171, -44.9999000, 1.200e-04, 1.345e-04);
        kani::cover!(true, "reach_end");
    }
    //@ob id=C08.cpr_location.samples.02 props=C08 tier=quick kind=harness fns=adsb/position.rs:cpr_location bounded=6-concrete-pairs
    //@region BOUNDED stand-in for the decode arithmetic (the all-input equivalence obligations C08.cpr_location.latitude/.longitude did not finish in 200 min): the real cpr_location on CPR pairs produced by an independent encoder for true positions in every NL zone, both hemispheres, both anchor parities, longitudes incl. the antimeridian and Greenwich: result within ~13 m of the true position (samples 12..18 of 126)
    #[kani::proof]
    #[kani::unwind(60)]
    fn c08_cpr_location_samples_02() {
        chk(68068, 3, 77856, 2, 0, 1, -26.8841171, 0.0001300, 1.200e-04, 1.345e-04);
        chk(41343, 75631, 31916, 74204, 1, 1, 25.8925393, 3.9193700, 1.200e-04, 1.334e-04);
        chk(46406, 131068, 56555, 131068, 0, 1, -27.8756949, -0.0002100, 1.200e-04, 1.358e-04);
        chk(46406, 131068, 56555, 131068, 1, 1, -27.8756949, -0.0002100, 1.200e-04, 1.358e-04);
        chk(107592, 131055, 97061, 65519, 1, 1, 28.9251720, 179.9991000, 1.200e-04, 1.371e-04);
        chk(112684, 65551, 123913, 15, 0, 1, -30.8417270, -179.9992000, 1.200e-04, 1.398e-04);
        kani::cover!(true, "reach_end");
    }
    //@ob id=C08.cpr_location.samples.03 props=C08 tier=quick kind=harness fns=adsb/position.rs:cpr_location bounded=6-concrete-pairs
    //@region BOUNDED stand-in for the decode arithmetic (the all-input equivalence obligations C08.cpr_location.latitude/.longitude did not finish in 200 min): the real cpr_location on CPR pairs produced by an independent encoder for true positions in every NL zone, both hemispheres, both anchor parities, longitudes incl. the antimeridian and Greenwich: result within ~13 m of the true position (samples 18..24 of 126)
    #[kani::proof]
    #[kani::unwind(60)]
    fn c08_cpr_location_samples_03() {
        chk(58022, 74638, 46132, 41688, 0, 1, 32.6560157, 90.5000000, 1.200e-04, 1.425e-04);
        chk(58022, 74638, 46132, 41688, 1, 1, 32.6560157, 90.5000000, 1.200e-04, 1.425e-04);
        chk(95780, 25713, 83261, 70662, 0, 1, 34.3844652, -123.4567000, 1.200e-04, 1.454e-04);
        chk(35292, 16386, 47811, 2, 1, 1, -34.3844652, 45.0001000, 1.200e-04, 1.454e-04);
        chk(130206, 2, 12256, 16386, 0, 1, -36.0396235, -44.9999000, 1.200e-04, 1.484e-04);
        chk(130206, 2, 12256, 16386, 1, 1, -36.0396235, -44.9999000, 1.200e-04, 1.484e-04);
        kani::cover!(true, "reach_end");
    }
    //@ob id=C08.cpr_location.samples.04 props=C08 tier=quick kind=harness fns=adsb/position.rs:cpr_location bounded=6-concrete-pairs
    //@region BOUNDED stand-in for the decode arithmetic (the all-input equivalence obligations C08.cpr_location.latitude/.longitude did not finish in 200 min): the real cpr_location on CPR pairs produced by an independent encoder for true positions in every NL zone, both hemispheres, both anchor parities, longitudes incl. the antimeridian and Greenwich: result within ~13 m of the true position (samples 24..30 of 126)
    #[kani::proof]
    #[kani::unwind(60)]
    fn c08_cpr_location_samples_04() {
        chk(115292, 2, 102447, 2, 1, 1, 35.2776336, 0.0001300, 1.200e-04, 1.470e-04);
        chk(17512, 68496, 4112, 67069, 0, 1, 36.8016134, 3.9193700, 1.200e-04, 1.499e-04);
        chk(113560, 131068, 126960, 131068, 0, 1, -36.8016134, -0.0002100, 1.200e-04, 1.499e-04);
        chk(113560, 131068, 126960, 131068, 1, 1, -36.8016134, -0.0002100, 1.200e-04, 1.499e-04);
        chk(95435, 65521, 109136, 131057, 0, 1, -37.6313350, 179.9991000, 1.200e-04, 1.515e-04);
        chk(69195, 13, 54934, 65549, 1, 1, 39.1674929, -179.9992000, 1.200e-04, 1.548e-04);
        kani::cover!(true, "reach_end");
    }
    //@ob id=C08.cpr_location.samples.05 props=C08 tier=quick kind=harness fns=adsb/position.rs:cpr_location bounded=6-concrete-pairs
    //@region BOUNDED stand-in for the decode arithmetic (the all-input equivalence obligations C08.cpr_location.latitude/.longitude did not finish in 200 min): the real cpr_location on CPR pairs produced by an independent encoder for true positions in every NL zone, both hemispheres, both anchor parities, longitudes incl. the antimeridian and Greenwich: result within ~13 m of the true position (samples 30..36 of 126)
    #[kani::proof]
    #[kani::unwind(60)]
    fn c08_cpr_location_samples_05() {
        chk(101680, 40960, 86878, 8010, 0, 1, 40.6545426, 90.5000000, 1.200e-04, 1.582e-04);
        chk(101680, 40960, 86878, 8010, 1, 1, 40.6545426, 90.5000000, 1.200e-04, 1.582e-04);
        chk(29392, 74437, 44194, 119387, 1, 1, -40.6545426, -123.4567000, 1.200e-04, 1.582e-04);
        chk(128935, 65538, 13190, 49154, 0, 1, -42.0978292, 45.0001000, 1.200e-04, 1.617e-04);
        chk(32808, 81922, 16970, 98306, 0, 1, 43.5018448, -44.9999000, 1.200e-04, 1.654e-04);
        chk(32808, 81922, 16970, 98306, 1, 1, 43.5018448, -44.9999000, 1.200e-04, 1.654e-04);
        kani::cover!(true, "reach_end");
    }
    //@ob id=C08.cpr_location.samples.06 props=C08 tier=quick kind=harness fns=adsb/position.rs:cpr_location bounded=6-concrete-pairs
    //@region BOUNDED stand-in for the decode arithmetic (the all-input equivalence obligations C08.cpr_location.latitude/.longitude did not finish in 200 min): the real cpr_location on CPR pairs produced by an independent encoder for true positions in every NL zone, both hemispheres, both anchor parities, longitudes incl. the antimeridian and Greenwich: result within ~13 m of the true position (samples 36..42 of 126)
    #[kani::proof]
    #[kani::unwind(60)]
    fn c08_cpr_location_samples_06() {
        chk(112488, 2, 128090, 2, 0, 1, -42.8507024, 0.0001300, 1.200e-04, 1.637e-04);
        chk(47033, 61361, 30957, 59934, 1, 1, 44.1529872, 3.9193700, 1.200e-04, 1.673e-04);
        chk(68367, 131069, 84704, 131069, 0, 1, -44.8704084, -0.0002100, 1.200e-04, 1.693e-04);
        chk(68367, 131069, 84704, 131069, 1, 1, -44.8704084, -0.0002100, 1.200e-04, 1.693e-04);
        chk(91899, 65523, 75076, 131059, 1, 1, 46.2067999, 179.9991000, 1.200e-04, 1.734e-04);
        chk(39173, 65548, 55996, 12, 0, 1, -46.2067999, -179.9992000, 1.200e-04, 1.734e-04);
        kani::cover!(true, "reach_end");
    }
    //@ob id=C08.cpr_location.samples.07 props=C08 tier=quick kind=harness fns=adsb/position.rs:cpr_location bounded=6-concrete-pairs
    //@region BOUNDED stand-in for the decode arithmetic (the all-input equivalence obligations C08.cpr_location.latitude/.longitude did not finish in 200 min): the real cpr_location on CPR pairs produced by an independent encoder for true positions in every NL zone, both hemispheres, both anchor parities, longitudes incl. the antimeridian and Greenwich: result within ~13 m of the true position (samples 42..48 of 126)
    #[kani::proof]
    #[kani::unwind(60)]
    fn c08_cpr_location_samples_07() {
        chk(120452, 7282, 103153, 105404, 0, 1, 47.5138619, 90.5000000, 1.200e-04, 1.777e-04);
        chk(120452, 7282, 103153, 105404, 1, 1, 47.5138619, 90.5000000, 1.200e-04, 1.777e-04);
        chk(113725, 81989, 418, 126938, 0, 1, -48.7940778, -123.4567000, 1.200e-04, 1.822e-04);
        chk(44775, 98305, 26552, 81921, 1, 1, 50.0496330, 45.0001000, 1.200e-04, 1.869e-04);
        chk(86297, 32769, 104520, 49153, 0, 1, -50.0496330, -44.9999000, 1.200e-04, 1.869e-04);
        chk(86297, 32769, 104520, 49153, 1, 1, -50.0496330, -44.9999000, 1.200e-04, 1.869e-04);
        kani::cover!(true, "reach_end");
    }
    //@ob id=C08.cpr_location.samples.08 props=C08 tier=quick kind=harness fns=adsb/position.rs:cpr_location bounded=6-concrete-pairs
    //@region BOUNDED stand-in for the decode arithmetic (the all-input equivalence obligations C08.cpr_location.latitude/.longitude did not finish in 200 min): the real cpr_location on CPR pairs produced by an independent encoder for true positions in every NL zone, both hemispheres, both anchor parities, longitudes incl. the antimeridian and Greenwich: result within ~13 m of the true position (samples 48..54 of 126)
    #[kani::proof]
    #[kani::unwind(60)]
    fn c08_cpr_location_samples_08() {
        chk(32005, 2, 13995, 2, 1, 1, 49.4650765, 0.0001300, 1.200e-04, 1.846e-04);
        chk(73527, 54226, 91963, 52799, 0, 1, -50.6341895, 3.9193700, 1.200e-04, 1.892e-04);
        chk(71707, 131069, 53035, 131069, 0, 1, 51.2824632, -0.0002100, 1.200e-04, 1.919e-04);
        chk(71707, 131069, 53035, 131069, 1, 1, 51.2824632, -0.0002100, 1.200e-04, 1.919e-04);
        chk(59365, 65524, 78037, 131060, 0, 1, -51.2824632, 179.9991000, 1.200e-04, 1.919e-04);
        chk(98179, 10, 79067, 65546, 1, 1, 52.4942931, -179.9992000, 1.200e-04, 1.971e-04);
        kani::cover!(true, "reach_end");
    }
    //@ob id=C08.cpr_location.samples.09 props=C08 tier=quick kind=harness fns=adsb/position.rs:cpr_location bounded=6-concrete-pairs
    //@region BOUNDED stand-in for the decode arithmetic (the all-input equivalence obligations C08.cpr_location.latitude/.longitude did not finish in 200 min): the real cpr_location on CPR pairs produced by an independent encoder for true positions in every NL zone, both hemispheres, both anchor parities, longitudes incl. the antimeridian and Greenwich: result within ~13 m of the true position (samples 54..60 of 126)
    #[kani::proof]
    #[kani::unwind(60)]
    fn c08_cpr_location_samples_09() {
        chk(6845, 104676, 26392, 71726, 0, 1, -53.6866681, 90.5000000, 1.200e-04, 2.026e-04);
        chk(6845, 104676, 26392, 71726, 1, 1, -53.6866681, 90.5000000, 1.200e-04, 2.026e-04);
        chk(18808, 44591, 129906, 89540, 1, 1, 54.8609796, -123.4567000, 1.200e-04, 2.085e-04);
        chk(86978, 16385, 107373, 1, 0, 1, -56.0184860, 45.0001000, 1.200e-04, 2.147e-04);
        chk(32293, 114689, 12094, 1, 0, 1, 55.4782665, -44.9999000, 1.200e-04, 2.117e-04);
        chk(32293, 114689, 12094, 1, 1, 1, 55.4782665, -44.9999000, 1.200e-04, 2.117e-04);
        kani::cover!(true, "reach_end");
    }
    //@ob id=C08.cpr_location.samples.10 props=C08 tier=quick kind=harness fns=adsb/position.rs:cpr_location bounded=6-concrete-pairs
    //@region BOUNDED stand-in for the decode arithmetic (the all-input equivalence obligations C08.cpr_location.latitude/.longitude did not finish in 200 min): the real cpr_location on CPR pairs produced by an independent encoder for true positions in every NL zone, both hemispheres, both anchor parities, longitudes incl. the antimeridian and Greenwich: result within ~13 m of the true position (samples 60..66 of 126)
    #[kani::proof]
    #[kani::unwind(60)]
    fn c08_cpr_location_samples_10() {
        chk(55896, 2, 35303, 2, 0, 1, 56.5587055, 0.0001300, 1.200e-04, 2.178e-04);
        chk(75176, 47091, 95769, 45664, 1, 1, -56.5587055, 3.9193700, 1.200e-04, 2.178e-04);
        chk(62034, 131070, 82845, 131070, 0, 1, -57.1603306, -0.0002100, 1.200e-04, 2.213e-04);
        chk(62034, 131070, 82845, 131070, 1, 1, -57.1603306, -0.0002100, 1.200e-04, 2.213e-04);
        chk(93663, 65526, 72441, 131062, 1, 1, 58.2875557, 179.9991000, 1.200e-04, 2.283e-04);
        chk(117989, 9, 96362, 65544, 0, 1, 59.4011153, -179.9992000, 1.200e-04, 2.357e-04);
        kani::cover!(true, "reach_end");
    }
    //@ob id=C08.cpr_location.samples.11 props=C08 tier=quick kind=harness fns=adsb/position.rs:cpr_location bounded=6-concrete-pairs
    //@region BOUNDED stand-in for the decode arithmetic (the all-input equivalence obligations C08.cpr_location.latitude/.longitude did not finish in 200 min): the real cpr_location on CPR pairs produced by an independent encoder for true positions in every NL zone, both hemispheres, both anchor parities, longitudes incl. the antimeridian and Greenwich: result within ~13 m of the true position (samples 66..72 of 126)
    #[kani::proof]
    #[kani::unwind(60)]
    fn c08_cpr_location_samples_11() {
        chk(13083, 70997, 34710, 38047, 0, 1, -59.4011153, 90.5000000, 1.200e-04, 2.357e-04);
        chk(13083, 70997, 34710, 38047, 1, 1, -59.4011153, 90.5000000, 1.200e-04, 2.357e-04);
        chk(120108, 7193, 11064, 52142, 0, 1, -60.5018853, -123.4567000, 1.200e-04, 2.437e-04);
        chk(34749, 65537, 12324, 49153, 1, 1, 61.5906722, 45.0001000, 1.200e-04, 2.522e-04);
        chk(23629, 65537, 1390, 81921, 0, 1, 61.0816674, -44.9999000, 1.200e-04, 2.482e-04);
        chk(23629, 65537, 1390, 81921, 1, 1, 61.0816674, -44.9999000, 1.200e-04, 2.482e-04);
        kani::cover!(true, "reach_end");
    }
    //@ob id=C08.cpr_location.samples.12 props=C08 tier=quick kind=harness fns=adsb/position.rs:cpr_location bounded=6-concrete-pairs
    //@region BOUNDED stand-in for the decode arithmetic (the all-input equivalence obligations C08.cpr_location.latitude/.longitude did not finish in 200 min): the real cpr_location on CPR pairs produced by an independent encoder for true positions in every NL zone, both hemispheres, both anchor parities, longitudes incl. the antimeridian and Greenwich: result within ~13 m of the true position (samples 72..78 of 126)
    #[kani::proof]
    #[kani::unwind(60)]
    fn c08_cpr_location_samples_12() {
        chk(107443, 1, 129682, 1, 1, 1, -61.0816674, 0.0001300, 1.200e-04, 2.482e-04);
        chk(85204, 39956, 107814, 38529, 0, 1, -62.0996769, 3.9193700, 1.200e-04, 2.564e-04);
        chk(58288, 131070, 35471, 131070, 0, 1, 62.6682207, -0.0002100, 1.200e-04, 2.614e-04);
        chk(58288, 131070, 35471, 131070, 1, 1, 62.6682207, -0.0002100, 1.200e-04, 2.614e-04);
        chk(49475, 131063, 72680, 65528, 0, 1, -63.7352200, 179.9991000, 1.200e-04, 2.712e-04);
        chk(104690, 65543, 81099, 7, 1, 1, 64.7923092, -179.9992000, 1.200e-04, 2.818e-04);
        kani::cover!(true, "reach_end");
    }
    //@ob id=C08.cpr_location.samples.13 props=C08 tier=quick kind=harness fns=adsb/position.rs:cpr_location bounded=6-concrete-pairs
    //@region BOUNDED stand-in for the decode arithmetic (the all-input equivalence obligations C08.cpr_location.latitude/.longitude did not finish in 200 min): the real cpr_location on CPR pairs produced by an independent encoder for true positions in every NL zone, both hemispheres, both anchor parities, longitudes incl. the antimeridian and Greenwich: result within ~13 m of the true position (samples 78..84 of 126)
    #[kani::proof]
    #[kani::unwind(60)]
    fn c08_cpr_location_samples_13() {
        chk(3493, 4369, 27465, 102491, 0, 1, -65.8400816, 90.5000000, 1.200e-04, 2.932e-04);
        chk(3493, 4369, 27465, 102491, 1, 1, -65.8400816, 90.5000000, 1.200e-04, 2.932e-04);
        chk(19204, 14744, 125926, 59693, 1, 1, 66.8790889, -123.4567000, 1.200e-04, 3.056e-04);
        chk(111868, 114689, 5146, 98305, 0, 1, -66.8790889, 45.0001000, 1.200e-04, 3.056e-04);
        chk(8580, 16385, 115479, 32769, 0, 1, 66.3927528, -44.9999000, 1.200e-04, 2.997e-04);
        chk(8580, 16385, 115479, 32769, 1, 1, 66.3927528, -44.9999000, 1.200e-04, 2.997e-04);
        kani::cover!(true, "reach_end");
    }
    //@ob id=C08.cpr_location.samples.14 props=C08 tier=quick kind=harness fns=adsb/position.rs:cpr_location bounded=6-concrete-pairs
    //@region BOUNDED stand-in for the decode arithmetic (the all-input equivalence obligations C08.cpr_location.latitude/.longitude did not finish in 200 min): the real cpr_location on CPR pairs produced by an independent encoder for true positions in every NL zone, both hemispheres, both anchor parities, longitudes incl. the antimeridian and Greenwich: result within ~13 m of the true position (samples 84..90 of 126)
    #[kani::proof]
    #[kani::unwind(60)]
    fn c08_cpr_location_samples_14() {
        chk(101244, 1, 125771, 1, 0, 1, -67.3654250, 0.0001300, 1.200e-04, 3.118e-04);
        chk(41721, 31394, 16996, 29967, 1, 1, 67.9098440, 3.9193700, 1.200e-04, 3.191e-04);
        chk(89351, 131070, 114076, 131070, 0, 1, -67.9098440, -0.0002100, 1.200e-04, 3.191e-04);
        chk(89351, 131070, 114076, 131070, 1, 1, -67.9098440, -0.0002100, 1.200e-04, 3.191e-04);
        chk(64069, 65529, 38971, 131065, 1, 1, 68.9328233, 179.9991000, 1.200e-04, 3.338e-04);
        chk(44816, 6, 70284, 65542, 0, 1, -69.9484685, -179.9992000, 1.200e-04, 3.500e-04);
        kani::cover!(true, "reach_end");
    }
    //@ob id=C08.cpr_location.samples.15 props=C08 tier=quick kind=harness fns=adsb/position.rs:cpr_location bounded=6-concrete-pairs
    //@region BOUNDED stand-in for the decode arithmetic (the all-input equivalence obligations C08.cpr_location.latitude/.longitude did not finish in 200 min): the real cpr_location on CPR pairs produced by an independent encoder for true positions in every NL zone, both hemispheres, both anchor parities, longitudes incl. the antimeridian and Greenwich: result within ~13 m of the true position (samples 90..96 of 126)
    #[kani::proof]
    #[kani::unwind(60)]
    fn c08_cpr_location_samples_15() {
        chk(108291, 101763, 82457, 68813, 0, 1, 70.9571877, 90.5000000, 1.200e-04, 3.678e-04);
        chk(108291, 101763, 82457, 68813, 1, 1, 70.9571877, 90.5000000, 1.200e-04, 3.678e-04);
        chk(22781, 63469, 48615, 108418, 0, 1, -70.9571877, -123.4567000, 1.200e-04, 3.678e-04);
        chk(130184, 32769, 103984, 16385, 1, 1, 71.9593551, 45.0001000, 1.200e-04, 3.875e-04);
        chk(11145, 98305, 37173, 114689, 0, 1, -71.4898342, -44.9999000, 1.200e-04, 3.780e-04);
        chk(11145, 98305, 37173, 114689, 1, 1, -71.4898342, -44.9999000, 1.200e-04, 3.780e-04);
        kani::cover!(true, "reach_end");
    }
    //@ob id=C08.cpr_location.samples.16 props=C08 tier=quick kind=harness fns=adsb/position.rs:cpr_location bounded=6-concrete-pairs
    //@region BOUNDED stand-in for the decode arithmetic (the all-input equivalence obligations C08.cpr_location.latitude/.longitude did not finish in 200 min): the real cpr_location on CPR pairs produced by an independent encoder for true positions in every NL zone, both hemispheres, both anchor parities, longitudes incl. the antimeridian and Greenwich: result within ~13 m of the true position (samples 96..102 of 126)
    #[kani::proof]
    #[kani::unwind(60)]
    fn c08_cpr_location_samples_16() {
        chk(9369, 1, 114070, 1, 1, 1, 72.4288760, 0.0001300, 1.200e-04, 3.975e-04);
        chk(110203, 24259, 5693, 22832, 0, 1, -72.9553099, 3.9193700, 1.200e-04, 4.094e-04);
        chk(42497, 131071, 15574, 131071, 0, 1, 73.9453543, -0.0002100, 1.200e-04, 4.339e-04);
        chk(42497, 131071, 15574, 131071, 1, 1, 73.9453543, -0.0002100, 1.200e-04, 4.339e-04);
        chk(64001, 65531, 36720, 131067, 0, 1, 74.9297484, 179.9991000, 1.200e-04, 4.615e-04);
        chk(67071, 65540, 94352, 4, 1, 1, -74.9297484, -179.9992000, 1.200e-04, 4.615e-04);
        kani::cover!(true, "reach_end");
    }
    //@ob id=C08.cpr_location.samples.17 props=C08 tier=quick kind=harness fns=adsb/position.rs:cpr_location bounded=6-concrete-pairs
    //@region BOUNDED stand-in for the decode arithmetic (the all-input equivalence obligations C08.cpr_location.latitude/.longitude did not finish in 200 min): the real cpr_location on CPR pairs produced by an independent encoder for true positions in every NL zone, both hemispheres, both anchor parities, longitudes incl. the antimeridian and Greenwich: result within ~13 m of the true position (samples 102..108 of 126)
    #[kani::proof]
    #[kani::unwind(60)]
    fn c08_cpr_location_samples_17() {
        chk(45685, 68085, 73323, 35135, 0, 1, -75.9087032, 90.5000000, 1.200e-04, 4.929e-04);
        chk(45685, 68085, 73323, 35135, 1, 1, -75.9087032, 90.5000000, 1.200e-04, 4.929e-04);
        chk(106657, 71020, 78665, 115969, 1, 1, 76.8823693, -123.4567000, 1.200e-04, 5.287e-04);
        chk(96687, 81920, 68861, 65536, 0, 1, 76.4259754, 45.0001000, 1.200e-04, 5.113e-04);
        chk(34385, 49152, 62211, 65536, 0, 1, -76.4259754, -44.9999000, 1.200e-04, 5.113e-04);
        chk(34385, 49152, 62211, 65536, 1, 1, -76.4259754, -44.9999000, 1.200e-04, 5.113e-04);
        kani::cover!(true, "reach_end");
    }
    //@ob id=C08.cpr_location.samples.18 props=C08 tier=quick kind=harness fns=adsb/position.rs:cpr_location bounded=6-concrete-pairs
    //@region BOUNDED stand-in for the decode arithmetic (the all-input equivalence obligations C08.cpr_location.latitude/.longitude did not finish in 200 min): the real cpr_location on CPR pairs produced by an independent encoder for true positions in every NL zone, both hemispheres, both anchor parities, longitudes incl. the antimeridian and Greenwich: result within ~13 m of the true position (samples 108..114 of 126)
    #[kani::proof]
    #[kani::unwind(60)]
    fn c08_cpr_location_samples_18() {
        chk(14445, 1, 42603, 1, 0, 1, -77.3387631, 0.0001300, 1.200e-04, 5.475e-04);
        chk(127813, 17124, 99468, 15697, 1, 1, 77.8508177, 3.9193700, 1.200e-04, 5.702e-04);
        chk(17782, 131071, 120159, 131071, 0, 1, 78.8140115, -0.0002100, 1.200e-04, 6.186e-04);
        chk(17782, 131071, 120159, 131071, 1, 1, 78.8140115, -0.0002100, 1.200e-04, 6.186e-04);
        chk(113290, 65532, 10913, 131069, 1, 1, -78.8140115, 179.9991000, 1.200e-04, 6.186e-04);
        chk(92367, 3, 121411, 65539, 0, 1, -79.7717572, -179.9992000, 1.200e-04, 6.758e-04);
        kani::cover!(true, "reach_end");
    }
    //@ob id=C08.cpr_location.samples.19 props=C08 tier=quick kind=harness fns=adsb/position.rs:cpr_location bounded=6-concrete-pairs
    //@region BOUNDED stand-in for the decode arithmetic (the all-input equivalence obligations C08.cpr_location.latitude/.longitude did not finish in 200 min): the real cpr_location on CPR pairs produced by an independent encoder for true positions in every NL zone, both hemispheres, both anchor parities, longitudes incl. the antimeridian and Greenwich: result within ~13 m of the true position (samples 114..120 of 126)
    #[kani::proof]
    #[kani::unwind(60)]
    fn c08_cpr_location_samples_19() {
        chk(59498, 34406, 30108, 1456, 0, 1, 80.7236228, 90.5000000, 1.200e-04, 7.444e-04);
        chk(59498, 34406, 30108, 1456, 1, 1, 80.7236228, 90.5000000, 1.200e-04, 7.444e-04);
        chk(50926, 33622, 80661, 78572, 0, 1, -81.6687916, -123.4567000, 1.200e-04, 8.282e-04);
        chk(10227, 8562, 40640, 7135, 0, 1, -83.5318650, 3.9193700, 1.200e-04, 1.065e-03);
        chk(102159, 131071, 2152, 65535, 0, 1, -85.3235391, 179.9991000, 1.200e-04, 1.472e-03);
        chk(46867, 65537, 15502, 1, 1, 1, 86.1453931, -179.9992000, 1.200e-04, 1.785e-03);
        kani::cover!(true, "reach_end");
    }
    //@ob id=C08.cpr_location.samples.20 props=C08 tier=quick kind=harness fns=adsb/position.rs:cpr_location bounded=6-concrete-pairs
    //@region BOUNDED stand-in for the decode arithmetic (the all-input equivalence obligations C08.cpr_location.latitude/.longitude did not finish in 200 min): the real cpr_location on CPR pairs produced by an independent encoder for true positions in every NL zone, both hemispheres, both anchor parities, longitudes incl. the antimeridian and Greenwich: result within ~13 m of the true position (samples 120..126 of 126)
    #[kani::proof]
    #[kani::unwind(60)]
    fn c08_cpr_location_samples_20() {
        chk(38859, 98850, 7628, 65900, 0, 1, 85.7788148, 90.5000000, 1.200e-04, 1.630e-03);
        chk(38859, 98850, 7628, 65900, 1, 1, 85.7788148, 90.5000000, 1.200e-04, 1.630e-03);
        chk(92213, 127296, 123444, 41174, 1, 1, -85.7788148, -123.4567000, 1.200e-04, 1.630e-03);
        chk(76197, 49152, 107695, 32768, 0, 1, -86.5119714, 45.0001000, 1.200e-04, 1.972e-03);
        chk(60461, 98304, 28870, 114688, 0, 1, 86.7676850, -44.9999000, 1.200e-04, 2.128e-03);
        chk(60461, 98304, 28870, 114688, 1, 1, 86.7676850, -44.9999000, 1.200e-04, 2.128e-03);
        kani::cover!(true, "reach_end");
    }
}
