//@target src/decoder/adsb/position.rs
//@props C08,C01
//@frem src/decoder/adsb/position.rs
//@assume C08 claims "position = the published global CPR decode of the stored pair" (integer zone indices exact, latitudes within 1e-9 degree, longitude bit-exact for the same zone count); that the published decode is within 20 m of the encoded position (5.1 m resolution of 17-bit CPR) is a theorem about the algorithm + the encoder, not about this code, and is NOT decided here
//@assume in C08.cpr_location.airborne the NL lookup is a ghost recorder returning arbitrary zone counts (its own contract: C08.nl, all non-NaN f64)

#[cfg(kani)]
mod verif_c08_position {
    use super::*;
    use crate::verif_spec as vs;

    //@ob id=C08.nl props=C08,C01 tier=quick kind=harness fns=adsb/position.rs:nl
    //@region every non-NaN f64 latitude: NL = 59 minus the number of the 58 formula-derived boundaries at or below |lat| (each boundary a potential off-by-one)
    #[kani::proof]
    #[kani::unwind(60)]
    fn c08_nl() {
        let lat: f64 = kani::any();
        kani::assume(!lat.is_nan());
        assert!(nl(lat) == vs::spec_nl(lat), "NL(lat) = published zone count");
        kani::cover!(lat > 86.9 && lat < 87.1, "near the pole");
        kani::cover!(true, "reach_end");
    }

    //@ob id=C08.pmod props=C08,C01 tier=quick kind=harness fns=adsb/position.rs:pmod
    //@region every i32 x and every divisor 1..=59 (the range of longitude zone counts n_i it is called with): pmod = Euclidean remainder in [0, y)
    #[kani::proof]
    #[kani::unwind(61)]
    #[kani::solver(z3)]
    fn c08_pmod() {
        let x: i32 = kani::any();
        let mut y: i32 = 1;
        while y <= 59 {
            assert!(pmod(x, y) == x.rem_euclid(y), "positive modulo");
            y += 1;
        }
        kani::cover!(x < 0, "negative dividend");
        kani::cover!(true, "reach_end");
    }

    static mut G_NL_CALLS: usize = 0;
    static mut G_NL_ARG: [f64; 2] = [0.0; 2];
    static mut G_NL_RET: [i32; 2] = [0; 2];
    static mut G_NL_FIXED: i32 = 0; // 0 = arbitrary per call
    fn nl_rec(lat: f64) -> i32 {
        let n: i32 = if unsafe { G_NL_FIXED } != 0 { unsafe { G_NL_FIXED } } else { kani::any() };
        kani::assume(n >= 1 && n <= 59);
        unsafe {
            let k = G_NL_CALLS;
            G_NL_CALLS += 1;
            if k < 2 {
                G_NL_ARG[k] = lat;
                G_NL_RET[k] = n;
            }
        }
        n
    }

    //@ob id=C08.cpr_location.latitude props=C08 tier=thorough mem=high kind=harness fns=adsb/position.rs:cpr_location,adsb/position.rs:fixed_lat
    //@region all 2 x 17-bit CPR latitudes (longitudes arbitrary), both anchor parities, airborne decode, recovered latitudes within 87S..87N: the NL lookup is asked about the two recovered latitudes of the published algorithm (exact zone index j; within 1e-9 deg); None iff the two zone counts differ; else latitude = recovered latitude of the anchor (newer) frame
    #[kani::proof]
    #[kani::unwind(6)]
    #[kani::stub(crate::decoder::adsb::position::nl, nl_rec)]
    fn c08_cpr_location_latitude() {
        let lat: [u32; 2] = kani::any();
        let lon: [u32; 2] = kani::any();
        kani::assume(lat[0] < (1 << 17) && lat[1] < (1 << 17) && lon[0] < (1 << 17) && lon[1] < (1 << 17));
        let form: u32 = kani::any();
        kani::assume(form <= 1);
        let r = cpr_location(&lat, &lon, form, 1);
        let (r0, r1) = vs::spec_rlat(lat[0], lat[1]);
        // the property's region: positions between 87S and 87N (the code maps a recovered latitude
        // of exactly -90 to 270, which update_position's range check then refuses to display)
        kani::assume(r0 >= -87.0 && r0 <= 87.0 && r1 >= -87.0 && r1 <= 87.0);
        unsafe {
            assert!(G_NL_CALLS == 2, "zone count looked up for both recovered latitudes");
            assert!(vs::close(G_NL_ARG[0], r0), "even recovered latitude = Dlat0*(mod(j,60)+lat0/2^17), southern values below 0");
            assert!(vs::close(G_NL_ARG[1], r1), "odd recovered latitude = Dlat1*(mod(j,59)+lat1/2^17), southern values below 0");
            let (n0, n1) = (G_NL_RET[0], G_NL_RET[1]);
            match r {
                None => assert!(n0 != n1, "no position only for a zone-straddling pair"),
                Some((la, _lo)) => {
                    assert!(n0 == n1, "a zone-straddling pair gives no position");
                    assert!(la == G_NL_ARG[form as usize], "latitude = recovered latitude of the anchor (newer) frame");
                }
            }
        }
        kani::cover!(r.is_some(), "decoded");
        kani::cover!(r.is_none(), "zone straddling");
        kani::cover!(true, "reach_end");
    }

    //@ob id=C08.cpr_location.longitude props=C08 tier=thorough mem=high kind=harness fns=adsb/position.rs:cpr_location,adsb/position.rs:signed_lon,adsb/position.rs:pmod
    //@region all 2 x 17-bit CPR longitudes, both anchor parities, every zone count NL 1..59 (one pass per NL; latitudes fixed, they only feed the NL lookup): longitude = 360/n_i * (mod(m, n_i) + lon_i/2^17) wrapped to [-180,180), m the exact integer zone index, n_i = max(NL - i, 1)
    #[kani::proof]
    #[kani::unwind(61)]
    #[kani::stub(crate::decoder::adsb::position::nl, nl_rec)]
    fn c08_cpr_location_longitude() {
        let lat: [u32; 2] = [0x1_0000, 0x0_F000];
        let lon: [u32; 2] = kani::any();
        kani::assume(lon[0] < (1 << 17) && lon[1] < (1 << 17));
        let form: u32 = kani::any();
        kani::assume(form <= 1);
        let mut n: i32 = 1;
        while n <= 59 {
            unsafe {
                G_NL_FIXED = n;
            }
            match cpr_location(&lat, &lon, form, 1) {
                Some((_la, lo)) => assert!(lo == vs::spec_rlon(lon[0], lon[1], n, form), "longitude = 360/n_i*(mod(m,n_i)+lon_i/2^17), m exact, wrapped to [-180,180)"),
                None => assert!(false, "equal zone counts: a position is produced"),
            }
            n += 1;
        }
        kani::cover!(true, "reach_end");
    }

    //@ob id=C08.cpr_location.no_panic props=C01 tier=quick kind=harness fns=adsb/position.rs:cpr_location
    //@region all 4 x 17-bit CPR fields, both parities, airborne and surface (quarter-zone) decode with the real NL lookup: no panic, no overflow, no division by zero
    #[kani::proof]
    #[kani::unwind(60)]
    fn c08_cpr_location_no_panic() {
        let lat: [u32; 2] = kani::any();
        let lon: [u32; 2] = kani::any();
        kani::assume(lat[0] < (1 << 17) && lat[1] < (1 << 17) && lon[0] < (1 << 17) && lon[1] < (1 << 17));
        let form: u32 = kani::any();
        kani::assume(form <= 1);
        let coeff: i32 = if kani::any() { 1 } else { 4 };
        let _ = cpr_location(&lat, &lon, form, coeff);
        kani::cover!(true, "reach_end");
    }
}
