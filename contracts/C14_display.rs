//@target src/decoder/plane/header.rs
//@props C14
//@assume C14 is claimed only for the flag plumbing (which -i letters switch which column group on) ; header/separator construction (LegendHeaders::from_display_flags, write! with width) and the rendering of rows (format_simple_display: core::fmt width, float and hex formatting of 40 columns) does not finish in CBMC and is NOT decided

#[cfg(kani)]
mod verif_c14_display {
    use super::*;

    //@ob id=C14.flags.bits props=C14 tier=quick kind=harness fns=plane/header.rs:DisplayFlags::from_booleans,plane/header.rs:DisplayFlags::weather
    //@region all 64 combinations of the six display booleans: each accessor returns exactly its boolean (no group is switched by another group's letter)
    #[kani::proof]
    fn c14_flags_bits() {
        let (w, a, s, al, e, q): (bool, bool, bool, bool, bool, bool) = (kani::any(), kani::any(), kani::any(), kani::any(), kani::any(), kani::any());
        let f = DisplayFlags::from_booleans(w, a, s, al, e, q);
        assert!(f.weather() == w && f.angles() == a && f.speed() == s && f.altitude() == al && f.extra() == e && f.quiet() == q, "each column group is on exactly when its flag is given");
        kani::cover!(true, "reach_end");
    }

    //@ob id=C14.flags.letters props=C14 tier=quick kind=harness fns=plane/header.rs:DisplayFlags::from_arg_str bounded=6-concrete-strings
    //@region -i letter strings "aAews" (default), "Q", "", "xyz", "wa", "seA": w=weather, a=angles, s=speed, A=altitude, e=extra, Q=quiet and nothing else
    #[kani::proof]
    #[kani::unwind(8)]
    fn c14_flags_letters() {
        let cases: [(&str, [bool; 6]); 6] = [
            ("aAews", [true, true, true, true, true, false]),
            ("Q", [false, false, false, false, false, true]),
            ("", [false; 6]),
            ("xyz", [false; 6]),
            ("wa", [true, true, false, false, false, false]),
            ("seA", [false, false, true, true, true, false]),
        ];
        let mut i = 0;
        while i < 6 {
            let f = DisplayFlags::from_arg_str(cases[i].0);
            let e = cases[i].1;
            assert!(f.weather() == e[0] && f.angles() == e[1] && f.speed() == e[2] && f.altitude() == e[3] && f.extra() == e[4] && f.quiet() == e[5], "-i letters map to their column groups");
            i += 1;
        }
        kani::cover!(true, "reach_end");
    }
}
