//@target src/decoder/plane/header.rs
//@props C14
//@assume C14 is claimed only for the flag plumbing (which -i letters switch which column group on) ; header/separator construction (LegendHeaders::from_display_flags, write! with width) and the rendering of rows (format_simple_display: core::fmt width, float and hex formatting of 40 columns) does not finish in CBMC and is NOT decided

#[cfg(kani)]
mod verif_c14_display {
    use super::*;

    //@ob id=C14.flags.letters props=C14 tier=quick kind=harness fns=plane/header.rs:DisplayFlags::from_arg_str bounded=14-concrete-strings
    //@region -i letter strings "aAews" (default), "Q", "", "xyz", "wa", "seA", each letter doubled ("aa","ww","ss","AA","ee","QQ"), "aAewsA", "awaxa": w=weather, a=angles, s=speed, A=altitude, e=extra, Q=quiet and nothing else
    #[kani::proof]
    #[kani::unwind(16)]
    fn c14_flags_letters() {
        let cases: [(&str, [bool; 6]); 14] = [
            ("aAews", [true, true, true, true, true, false]),
            ("Q", [false, false, false, false, false, true]),
            ("", [false; 6]),
            ("xyz", [false; 6]),
            ("wa", [true, true, false, false, false, false]),
            ("seA", [false, false, true, true, true, false]),
            // a letter given more than once (e.g. `-i a -i a`, the values are concatenated) still means its own group only
            ("aa", [false, true, false, false, false, false]),
            ("ww", [true, false, false, false, false, false]),
            ("ss", [false, false, true, false, false, false]),
            ("AA", [false, false, false, true, false, false]),
            ("ee", [false, false, false, false, true, false]),
            ("QQ", [false, false, false, false, false, true]),
            ("aAewsA", [true, true, true, true, true, false]),
            ("awaxa", [true, true, false, false, false, false]),
        ];
        let mut i = 0;
        while i < 14 {
            let f = DisplayFlags::from_arg_str(cases[i].0);
            let e = cases[i].1;
            assert!(f.weather() == e[0] && f.angles() == e[1] && f.speed() == e[2] && f.altitude() == e[3] && f.extra() == e[4] && f.quiet() == e[5], "-i letters map to their column groups");
            i += 1;
        }
        kani::cover!(true, "reach_end");
    }
}
