//@target src/decoder/adsb/ais.rs
//@props C07
//@assume composition for C07: ais(frame) = [ia5(c_k) for the eight 6-bit slices c_k of bits 41..88, in order] with blanks removed.  Proved in three pieces because a String of symbolic length does not finish in CBMC: C07.ia5 (character map for every code), C07.ais.slices (the eight codes handed to ia5 are exactly the eight slices, in order, and all eight results are kept in order when none is blank), C07.ais.omit (blank results are dropped, others keep their order; BOUNDED to 8 concrete blank patterns - the dropping itself is std Iterator::filter)

#[cfg(kani)]
mod verif_c07_ais {
    use super::*;
    use crate::verif_spec as vs;
    use crate::verif_spec::h::*;

    //@ob id=C07.ia5 props=C07,C01 tier=quick kind=harness fns=adsb/ais.rs:ia5
    //@region every u32 character code: 1-26 -> 'A'-'Z', 48-57 -> '0'-'9', everything else blank (omitted)
    #[kani::proof]
    fn c07_ia5() {
        let c: u32 = kani::any();
        let got = ia5(c);
        match vs::spec_ia5(c) {
            Some(b) => assert!(got == b as char, "mapped character"),
            None => assert!(got == ' ', "unmapped code is blank (omitted from the callsign)"),
        }
        kani::cover!(c == 26, "Z");
        kani::cover!(true, "reach_end");
    }

    static mut CALLS: usize = 0;
    static mut CODES: [u32; 8] = [0; 8];
    static mut BLANK_MASK: u8 = 0;
    fn ia5_rec(ch: u32) -> char {
        unsafe {
            let k = CALLS;
            CALLS += 1;
            if k < 8 {
                CODES[k] = ch;
            }
            if k < 8 && (BLANK_MASK >> k) & 1 == 1 { ' ' } else { (b'A' + (k as u8 % 26)) as char }
        }
    }

    //@ob id=C07.ais.slices props=C07,C01 tier=quick kind=harness fns=adsb/ais.rs:ais draw=frame28 replay=callsign
    //@region all 112-bit frames (all 2^48 character fields): the character decoder is asked about exactly the eight 6-bit slices of bits 41-88, in order, and the eight results appear in that order
    #[kani::proof]
    #[kani::unwind(34)]
    #[kani::stub(crate::decoder::adsb::ais::ia5, ia5_rec)]
    fn c07_ais_slices() {
        let m = any_frame28();
        let r = ais(&m);
        unsafe {
            assert!(CALLS == 8, "eight characters");
            let mut k = 0;
            while k < 8 {
                assert!(CODES[k] == vs::bits(&m, 41 + 6 * k as u32, 46 + 6 * k as u32), "k-th character code = k-th 6-bit slice of bits 41-88");
                k += 1;
            }
        }
        assert!(r.as_deref().map_or(false, |s| str_eq(s, "ABCDEFGH")), "all eight characters kept, in order");
        kani::cover!(true, "reach_end");
    }

    fn expect_for(mask: u8) -> ([u8; 8], usize) {
        let mut out = [0u8; 8];
        let mut n = 0;
        let mut k = 0;
        while k < 8 {
            if (mask >> k) & 1 == 0 {
                out[n] = b'A' + k as u8;
                n += 1;
            }
            k += 1;
        }
        (out, n)
    }

    //@ob id=C07.ais.omit props=C07 tier=quick kind=harness fns=adsb/ais.rs:ais bounded=8-blank-patterns
    //@region blank characters are omitted and the others keep their order, for the blank patterns 00000000, 11111111, 00000001, 10000000, 01011010, 10100101, 00111100, 11000011 (concrete frame; the dropping is std Iterator::filter + collect)
    #[kani::proof]
    #[kani::unwind(34)]
    #[kani::stub(crate::decoder::adsb::ais::ia5, ia5_rec)]
    fn c07_ais_omit() {
        let m = [0u32; 28];
        let masks: [u8; 8] = [0x00, 0xFF, 0x01, 0x80, 0x5A, 0xA5, 0x3C, 0xC3];
        let mut i = 0;
        while i < 8 {
            unsafe {
                CALLS = 0;
                BLANK_MASK = masks[i];
            }
            let r = ais(&m);
            let (exp, n) = expect_for(masks[i]);
            let ok = match &r {
                Some(s) => {
                    let b = s.as_bytes();
                    let mut same = b.len() == n;
                    let mut k = 0;
                    while same && k < n {
                        if b[k] != exp[k] {
                            same = false;
                        }
                        k += 1;
                    }
                    same
                }
                None => false,
            };
            assert!(ok, "blank characters omitted, others in order");
            i += 1;
        }
        kani::cover!(true, "reach_end");
    }
}
