//@target src/decoder/adsb/ais.rs
//@props C07

#[cfg(kani)]
mod verif_c07_ais {
    use super::*;
    use crate::verif_spec::h::*;

    //@ob id=C07.ais props=C07,C01 tier=quick kind=harness fns=adsb/ais.rs:ais,adsb/ais.rs:ia5 draw=frame28
    //@region all long frames (all 2^48 character fields x every other bit): callsign = the eight 6-bit characters in order, 1-26 -> A-Z, 48-57 -> 0-9, every other code omitted
    #[kani::proof]
    #[kani::unwind(34)]
    fn c07_ais() {
        let m = any_frame28();
        // contract of `ais` in harness form (an `ensures` over Option<String> makes Kani's contract
        // wrapper fail internally): requires valid_msg && len == 28; ensures callsign_ok
        let r = ais(&m);
        assert!(crate::verif_spec::callsign_ok(&m, &r), "callsign = eight 6-bit characters in order, unmapped codes omitted");
        kani::cover!(true, "reach_end");
    }
}
