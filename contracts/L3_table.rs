//@target src/decoder/planes.rs
//@props C03,C11,C12,C16,C19,C01
//@needs L2_row,C16_counters
//@rewrite {"file":"src/decoder/planes.rs","line":"collections::HashMap,","replace":["collections::HashMap as StdHashMapNotUsedUnderKani,"],"append":["#[cfg(kani)] use crate::verif_models::VMap as HashMap;","#[cfg(not(kani))] use StdHashMapNotUsedUnderKani as HashMap;"],"why":"std HashMap is out of CBMC's reach; VMap is the stated finite-map contract model (/verif/models)"}
//@assume std::collections::HashMap behaves as a finite map with unique keys (entry/and_modify/or_insert/retain/iter as modelled by /verif/models VMap); table obligations are BOUNDED to 2 existing rows (3 in the thorough tier)
//@assume in L3.table.* the row-step functions (Plane::update, update_from_downlink<DF>, Plane::from_downlink) are replaced by ghost recorders that mark the row they are given; their own contracts are L2.*

#[cfg(kani)]
pub(crate) mod verif_l3_table {
    use super::*;
    use crate::decoder::plane::verif_row::*;
    use crate::decoder::Srt;
    use crate::verif_models::VMap;
    use crate::verif_spec::h::*;

    pub fn mk_args(relaxed: bool, use_update_method: bool, delete_after: i64) -> Args {
        Args {
            count_df: false,
            display_info: Vec::new(),
            downlink_log: None,
            error_log: None,
            filter: None,
            format: None,
            log_messages: None,
            order_by: Vec::new(),
            observer_coord: None,
            relaxed,
            source: String::new(),
            tcp: String::new(),
            update: 3,
            delete_after,
            use_update_method,
        }
    }

    // recorders: mark the row they get
    static mut R_UPD: u32 = 0;
    static mut R_UPD_ARGS: (*const u32, u32, bool) = (core::ptr::null(), 0, false);
    fn rec_update(p: &mut Plane, m: &[u32], df: u32, relaxed: bool) {
        unsafe {
            R_UPD += 1;
            R_UPD_ARGS = (m.as_ptr(), df, relaxed);
        }
        p.turn = 1001;
    }
    static mut R_DL: u32 = 0;
    static mut R_DL_ARG: *const DF = core::ptr::null();
    fn rec_downlink(p: &mut Plane, dl: &DF) {
        unsafe {
            R_DL += 1;
            R_DL_ARG = dl as *const DF;
        }
        p.turn = 1002;
    }
    static mut R_NEW_ARG: (*const DF, u32) = (core::ptr::null(), 0);
    fn rec_from_downlink(dl: &DF, icao: u32) -> Plane {
        unsafe {
            R_NEW_ARG = (dl as *const DF, icao);
        }
        let mut p = row(icao);
        p.turn = 2002;
        p
    }

    /// a cheap concrete row of a given key (contents irrelevant here: the row step is L2's)
    pub fn row(icao: u32) -> Plane {
        let t = mk_time(100, 10);
        Plane {
            icao,
            capability: (0, crate::decoder::Capability::new()),
            category: (0, 0),
            reg: "??",
            ais: None,
            altitude: None,
            altitude_gnss: None,
            altitude_source: ' ',
            selected_altitude: None,
            barometric_pressure_setting: None,
            target_altitude_source: ' ',
            squawk: None,
            surveillance_status: ' ',
            threat_encounter: None,
            vrate: None,
            vrate_source: '_',
            cpr_lat: [0, 0],
            cpr_lon: [0, 0],
            cpr_time: [t, t],
            lat: 0.0,
            lon: 0.0,
            distance_from_observer: None,
            grspeed: None,
            true_airspeed: None,
            indicated_airspeed: None,
            mach_number: None,
            ground_movement: None,
            turn: 0,
            track: None,
            track_source: ' ',
            heading: None,
            heading_source: ' ',
            roll_angle: None,
            track_angle_rate: None,
            bds_5_0_timestamp: None,
            temperature: None,
            wind: None,
            turbulence: None,
            humidity: None,
            pressure: None,
            timestamp: t,
            position_timestamp: None,
            track_timestamp: None,
            heading_timestamp: None,
            last_type_code: 0,
            last_df: 0,
            adsb_version: None,
        }
    }

    fn table(keys: &[u32]) -> Planes {
        let mut rows: Vec<Box<(u32, Plane)>> = Vec::with_capacity(keys.len());
        let mut i = 0;
        while i < keys.len() {
            rows.push(Box::new((keys[i], row(keys[i]))));
            i += 1;
        }
        Planes { aircrafts: std::sync::Arc::new(std::sync::RwLock::new(VMap::from_rows(rows))) }
    }

    fn distinct(keys: &[u32]) -> bool {
        let mut i = 0;
        while i < keys.len() {
            let mut j = i + 1;
            while j < keys.len() {
                if keys[i] == keys[j] {
                    return false;
                }
                j += 1;
            }
            i += 1;
        }
        true
    }

    fn check_update_aircraft(keys: &[u32]) {
        kani::assume(distinct(keys));
        let mut t = table(keys);
        let icao: u32 = kani::any();
        kani::assume(icao != 0);
        let df: u32 = kani::any();
        let relaxed: bool = kani::any();
        let u: bool = kani::any();
        let args = mk_args(relaxed, u, 60);
        let m = [0u32; 28];
        let dl = DF::SRT(Srt::new());
        t.update_aircraft(&dl, &m, df, icao, &args);
        let g = t.aircrafts.read().unwrap();
        let hit = {
            let mut h = None;
            let mut i = 0;
            while i < keys.len() {
                if keys[i] == icao {
                    h = Some(i);
                }
                i += 1;
            }
            h
        };
        // existing rows: key set and order of the model unchanged, untouched rows identical
        let mut i = 0;
        while i < keys.len() {
            assert!(g.rows[i].0 == keys[i], "existing keys stay");
            assert!(g.rows[i].1.icao == keys[i], "a row's address field equals its key");
            if Some(i) != hit {
                assert!(g.rows[i].1.turn == 0, "a frame for one address never touches another aircraft's row");
            }
            i += 1;
        }
        unsafe {
            match hit {
                Some(i) => {
                    assert!(g.rows.len() == keys.len(), "known address: no row added (never two rows for one address)");
                    let default_path = df < 20 && !u;
                    if default_path {
                        assert!(g.rows[i].1.turn == 1002 && R_DL == 1 && R_UPD == 0 && R_DL_ARG == &dl as *const DF, "df < 20 without -U: the row of this address is updated from the downlink record, once");
                    } else {
                        assert!(g.rows[i].1.turn == 1001 && R_UPD == 1 && R_DL == 0 && R_UPD_ARGS == (m.as_ptr(), df, relaxed), "df >= 20 or -U: the row of this address is updated from the frame, once");
                    }
                }
                None => {
                    assert!(g.rows.len() == keys.len() + 1, "unknown address: exactly one row created");
                    let n = &g.rows[keys.len()];
                    assert!(n.0 == icao && n.1.icao == icao && n.1.turn == 2002, "the new row is keyed by the frame's address and built from this frame's record");
                    assert!(R_NEW_ARG == (&dl as *const DF, icao), "new row built from this record and this address");
                    assert!(R_DL == 0 && R_UPD == 0, "no existing row is updated");
                }
            }
        }
        kani::cover!(keys.is_empty() || (hit.is_some() && df < 20 && !u), "hit default path");
        kani::cover!(keys.is_empty() || (hit.is_some() && df >= 20), "hit update path");
        kani::cover!(hit.is_none(), "miss");
        kani::cover!(true, "reach_end");
    }

    //@ob id=L3.table.update_aircraft.2 flags=noassert props=C03,C11,C12,C19,C01 tier=quick kind=harness fns=planes.rs:Planes::update_aircraft bounded=2-existing-rows
    //@region update_aircraft on a table of 2 rows with symbolic distinct keys, symbolic frame address, df, -U, -R: only the row of that address is touched (created iff absent, once), path = downlink record iff df<20 and not -U, all other rows identical, no duplicate key
    #[kani::proof]
    #[kani::unwind(6)]
    #[kani::stub(crate::decoder::plane::Plane::update, rec_update)]
    #[kani::stub(<crate::decoder::plane::Plane as crate::decoder::plane::UpdateFromDownlink<crate::decoder::downlink::dfs::DF>>::update_from_downlink, rec_downlink)]
    #[kani::stub(crate::decoder::plane::Plane::from_downlink, rec_from_downlink)]
    fn l3_table_update_aircraft_2() {
        let keys: [u32; 2] = kani::any();
        check_update_aircraft(&keys);
    }

    //@ob id=L3.table.update_aircraft.0 flags=noassert props=C03,C11,C12,C01 tier=quick kind=harness fns=planes.rs:Planes::update_aircraft bounded=empty-table
    //@region update_aircraft on the empty table: the first frame creates exactly one row keyed by its address
    #[kani::proof]
    #[kani::unwind(6)]
    #[kani::stub(crate::decoder::plane::Plane::update, rec_update)]
    #[kani::stub(<crate::decoder::plane::Plane as crate::decoder::plane::UpdateFromDownlink<crate::decoder::downlink::dfs::DF>>::update_from_downlink, rec_downlink)]
    #[kani::stub(crate::decoder::plane::Plane::from_downlink, rec_from_downlink)]
    fn l3_table_update_aircraft_0() {
        let keys: [u32; 0] = [];
        check_update_aircraft(&keys);
    }

    //@ob id=L3.table.update_aircraft.3 flags=noassert props=C03,C11,C12,C19,C01 tier=thorough kind=harness fns=planes.rs:Planes::update_aircraft bounded=3-existing-rows
    //@region as L3.table.update_aircraft.2 with 3 rows
    #[kani::proof]
    #[kani::unwind(6)]
    #[kani::stub(crate::decoder::plane::Plane::update, rec_update)]
    #[kani::stub(<crate::decoder::plane::Plane as crate::decoder::plane::UpdateFromDownlink<crate::decoder::downlink::dfs::DF>>::update_from_downlink, rec_downlink)]
    #[kani::stub(crate::decoder::plane::Plane::from_downlink, rec_from_downlink)]
    fn l3_table_update_aircraft_3() {
        let keys: [u32; 3] = kani::any();
        check_update_aircraft(&keys);
    }

    // ------------------------------------------------------------ sweep
    fn check_cleanup<const N: usize>() {
        let keys: [u32; N] = kani::any();
        kani::assume(distinct(&keys));
        let mut t = table(&keys);
        let mut stamps: [(u32, u32, u32); N] = [(1, 0, 0); N];
        {
            let mut g = t.aircrafts.write().unwrap();
            let mut i = 0;
            while i < N {
                let day: u32 = kani::any();
                let sec: u32 = kani::any();
                let ns: u32 = kani::any();
                kani::assume(day >= 1 && day <= 365 && sec < 86_400 && ns < 1_000_000_000);
                stamps[i] = (day, sec, ns);
                g.rows[i].1.timestamp = mk_time_ns(day, sec, ns);
                i += 1;
            }
        }
        let now = {
            let (day, sec, ns): (u32, u32, u32) = (kani::any(), kani::any(), kani::any());
            kani::assume(day >= 1 && day <= 365 && sec < 86_400 && ns < 1_000_000_000);
            mk_time_ns(day, sec, ns)
        };
        let delete_after: i64 = kani::any();
        kani::assume(delete_after >= 1 && delete_after <= 1_000_000);
        let count: u32 = kani::any();
        kani::assume(count <= 11); // invariant of the sweep counter (0 at start, reset to 0 then +1 at 11)
        let mut st = AppCounters { df_count: crate::verif_models::VOrdMap::new(), timestamp: mk_time(1, 0), cleanup_count: count };
        t.cleanup(&mut st, now, delete_after);
        let g = t.aircrafts.read().unwrap();
        if count > 10 {
            assert!(st.cleanup_count == 1, "after a sweep the frame counter restarts (this frame counted)");
            // kept rows = exactly those heard fewer than delete_after whole seconds ago, in order
            let mut k = 0;
            let mut i = 0;
            while i < N {
                let age = now.signed_duration_since(mk_time_ns(stamps[i].0, stamps[i].1, stamps[i].2)).num_seconds();
                if age < delete_after {
                    assert!(k < g.rows.len() && g.rows[k].0 == keys[i], "an aircraft heard fewer than delete_after seconds ago stays in the table");
                    k += 1;
                }
                i += 1;
            }
            assert!(g.rows.len() == k, "an aircraft silent for delete_after seconds or more is removed by the sweep");
        } else {
            assert!(st.cleanup_count == count + 1, "no sweep: frame counter + 1");
            assert!(g.rows.len() == N, "no sweep: no row removed");
            let mut i = 0;
            while i < N {
                assert!(g.rows[i].0 == keys[i] && g.rows[i].1.timestamp == mk_time_ns(stamps[i].0, stamps[i].1, stamps[i].2), "no sweep: rows untouched");
                i += 1;
            }
        }
        assert!(st.cleanup_count <= 11, "sweep counter invariant: at most 11");
        assert!(st.df_count.len() == 0, "DF counters untouched by the sweep");
        kani::cover!(count > 10 && N > 0 && g.rows.len() < N, "sweep removes");
        kani::cover!(count > 10 && N > 0 && g.rows.len() == N, "sweep keeps all");
        kani::cover!(true, "reach_end");
    }

    //@ob id=L3.table.cleanup.1 flags=noassert props=C12,C01 tier=quick kind=harness fns=planes.rs:Planes::cleanup bounded=1-row
    //@region cleanup on a table of 1 row (cheapest instance: decides the age rule itself, incl. sub-second fractions of both instants)
    #[kani::proof]
    #[kani::unwind(6)]
    fn l3_table_cleanup_1() {
        check_cleanup::<1>();
    }

    //@ob id=L3.table.cleanup.2 flags=noassert props=C12,C01 tier=quick kind=harness fns=planes.rs:Planes::cleanup,counters.rs:increment_cleanup_count,counters.rs:reset_cleanup_count bounded=2-rows
    //@region cleanup on a table of 2 rows: symbolic last-contact stamps and `now` (any instants of 2026, nanosecond resolution), delete_after in [1, 10^6], sweep counter in 0..=11: sweep iff counter > 10; a sweep keeps exactly the rows with whole-second age < delete_after; counter invariant <= 11 (so a sweep happens within 12 accepted frames)
    #[kani::proof]
    #[kani::unwind(6)]
    fn l3_table_cleanup_2() {
        check_cleanup::<2>();
    }

    //@ob id=L3.table.cleanup.3 flags=noassert props=C12,C01 tier=thorough kind=harness fns=planes.rs:Planes::cleanup bounded=3-rows
    //@region as L3.table.cleanup.2 with 3 rows
    #[kani::proof]
    #[kani::unwind(6)]
    fn l3_table_cleanup_3() {
        check_cleanup::<3>();
    }
}
