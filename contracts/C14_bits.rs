//@target src/decoder/plane/header.rs
//@props C14

#[cfg(kani)]
mod verif_c14_bits {
    use super::*;

    //@ob id=C14.flags.bits props=C14 tier=quick kind=harness fns=plane/header.rs:DisplayFlags::from_booleans,plane/header.rs:DisplayFlags::weather
    //@region all 64 combinations of the six display booleans: each accessor returns exactly its boolean (no group is switched by another group's letter)
    #[kani::proof]
    fn c14_flags_bits() {
        let (w, a, s, al, e, q): (bool, bool, bool, bool, bool, bool) = (kani::any(), kani::any(), kani::any(), kani::any(), kani::any(), kani::any());
        let f = DisplayFlags::from_booleans(w, a, s, al, e, q);
        assert!(f.weather() == w && f.angles() == a && f.speed() == s && f.altitude() == al && f.extra() == e && f.quiet() == q, "each column group is on exactly when its flag is given");
        kani::cover!(true, "reach_end");
    }
}
