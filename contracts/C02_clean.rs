//@target src/decoder/utils/format.rs
//@props C02,C01
//@assume T-digits: the first statement of clean_squitter, `line.chars().filter_map(|c| c.to_digit(16)).collect()`, yields exactly the hex-digit values (each < 16) of `line` in order and nothing else (std: str::chars, char::to_digit(16) accepts 0-9a-fA-F only, Iterator::filter_map, collect). Decoration- and case-invariance of C02 rest on this std contract, not on /repo code.
//@extract kind=fn_tail_after_first_stmt file=src/decoder/utils/format.rs fn=clean_squitter must=let~trimmed_line:~Vec<u32>~=~line.chars().filter_map(|c|~c.to_digit(16)).collect(); sig=pub(crate)~fn~__verif_clean_tail(line:~&str,~trimmed_line:~Vec<u32>)~->~Option<Vec<u32>> trusted=T-digits

#[cfg(kani)]
mod verif_c02_clean {
    use super::*;

    fn digits(n: usize) -> Vec<u32> {
        let mut d: Vec<u32> = Vec::with_capacity(n);
        let mut i = 0;
        while i < n {
            let x: u32 = kani::any();
            kani::assume(x < 16);
            d.push(x);
            i += 1;
        }
        d
    }

    fn check_len(n: usize) {
        let d = digits(n);
        let copy = d.clone();
        let r = __verif_clean_tail("8D40621D58C382D690C8AC2863A7", d);
        // the text of the line is used for the warning message only: a different line with
        // the same digit vector gives the same result
        let r2 = __verif_clean_tail("*;", copy.clone());
        use crate::verif_spec::h::slices_eq;
        match (&r, &r2) {
            (Some(a), Some(b)) => assert!(slices_eq(a, b), "result depends on the digit vector only"),
            (None, None) => {}
            _ => assert!(false, "result depends on the digit vector only"),
        }
        match n {
            14 | 28 => assert!(r.is_some() && slices_eq(r.as_ref().unwrap(), &copy), "14/28 digits: the digits themselves"),
            26 | 40 => assert!(r.is_some() && slices_eq(r.as_ref().unwrap(), &copy[12..]), "26/40 digits: the first 12 (receiver timestamp) dropped"),
            _ => assert!(r.is_none(), "any other digit count is not a frame"),
        }
    }

    //@ob id=C02.clean_tail.lengths_0_41 props=C02,C01 tier=quick kind=harness fns=utils/format.rs:clean_squitter
    //@region everything clean_squitter does after collecting the digit vector, every digit count 0..=41, digit values symbolic
    #[kani::proof]
    #[kani::unwind(44)]
    fn c02_clean_tail_0_41() {
        let mut n = 0;
        while n <= 41 {
            check_len(n);
            n += 1;
        }
        kani::cover!(true, "reach_end");
    }

    //@ob id=C02.clean_tail.lengths_42_65 props=C02,C01 tier=thorough kind=harness fns=utils/format.rs:clean_squitter
    //@region digit counts 42..=65 and 200 (the `_` arm is selected by the count alone, so larger counts behave like these)
    #[kani::proof]
    #[kani::unwind(202)]
    fn c02_clean_tail_42_65() {
        let mut n = 42;
        while n <= 65 {
            check_len(n);
            n += 1;
        }
        check_len(200);
        kani::cover!(true, "reach_end");
    }
}
