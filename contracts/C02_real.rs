//@target src/decoder/utils/format.rs
//@props C02
//@assume C02.clean_squitter.decorated.* are BOUNDED: the real clean_squitter (incl. its digit-collecting first statement, which the unbounded obligations replace by the trusted contract T-digits) on 6 concrete lines

#[cfg(kani)]
mod verif_c02_real {
    use super::*;

    const FRAME: [u32; 28] = [8, 13, 4, 0, 6, 2, 1, 13, 5, 8, 12, 3, 8, 2, 13, 6, 9, 0, 12, 8, 10, 12, 2, 8, 6, 3, 10, 7];

    fn expect_frame(line: &str) {
        match clean_squitter(line) {
            Some(v) => assert!(crate::verif_spec::h::slices_eq(&v, &FRAME), "decoration, case and a 12-digit timestamp prefix do not change the frame"),
            None => assert!(false, "a decorated 28-digit frame is still a frame"),
        }
    }

    //@ob id=C02.clean_squitter.decorated.a props=C02 tier=quick kind=harness fns=utils/format.rs:clean_squitter bounded=3-concrete-lines
    //@region BOUNDED (the digit-collecting first statement of clean_squitter is otherwise only the trusted contract T-digits): the REAL clean_squitter on concrete lines - plain, '*...;' decoration, lower case with blanks and CR: same 28 digits
    #[kani::proof]
    #[kani::unwind(60)]
    fn c02_clean_squitter_decorated_a() {
        expect_frame("8D40621D58C382D690C8AC2863A7");
        expect_frame("*8D40621D58C382D690C8AC2863A7;");
        expect_frame(" 8d40621d58c382d6 90c8ac2863a7\r");
        kani::cover!(true, "reach_end");
    }

    //@ob id=C02.clean_squitter.decorated.b props=C02 tier=quick kind=harness fns=utils/format.rs:clean_squitter bounded=3-concrete-lines
    //@region the same for a '@' + 12-digit timestamp prefixed line (40 digits), a line with a non-hex letter inside (27 digits: not a frame) and an empty line
    #[kani::proof]
    #[kani::unwind(60)]
    fn c02_clean_squitter_decorated_b() {
        expect_frame("@009736E2736B8D40621D58C382D690C8AC2863A7;");
        assert!(clean_squitter("8D40621D58C382D690C8AC2863AG").is_none(), "27 hex digits and a 'G' are not a frame");
        assert!(clean_squitter("").is_none(), "an empty line is not a frame");
        kani::cover!(true, "reach_end");
    }

    //@ob id=C02.clean_squitter.decorated.c props=C02 tier=quick kind=harness fns=utils/format.rs:clean_squitter bounded=1-concrete-line-with-every-non-hex-ASCII-character
    //@region the same for one line that surrounds the 28 digits with EVERY non-hex ASCII character (all control characters 0x01-0x1F incl. XON/XOFF/TAB/ESC, all punctuation, the letters g-z and G-Z, DEL) and a non-ASCII letter: none of them is counted as a digit
    #[kani::proof]
    #[kani::unwind(140)]
    fn c02_clean_squitter_decorated_c() {
        expect_frame("\x01\x02\x03\x04\x05\x06\x07\x08\t\x0b\x0c\x0e\x0f\x10\x11\x12\x13\x14\x15\x16\x17\x18\x19\x1a\x1b\x1c\x1d\x1e\x1f ghijklmnopqrstuvwxyz8D40621D58C382D690C8AC2863A7GHIJKLMNOPQRSTUVWXYZ!\"#$%&'()*+,-./:;<=>?@[\\]^_`{|}~\x7f\u{e9}");
        kani::cover!(true, "reach_end");
    }
}
