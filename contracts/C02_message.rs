//@target src/decoder/utils.rs
//@props C02,C04
//@needs C02_clean
//@assume get_message is verified with clean_squitter replaced by a stand-in that returns an arbitrary digit vector of length 14 or 28 (what the proved tail contract C02.clean_tail + T-digits allow it to return) or None

#[cfg(kani)]
mod verif_c02_message {
    use super::*;
    use crate::verif_spec::h::*;
    use crate::verif_spec::*;

    static mut GHOST_D14: [u32; 14] = [0; 14];
    static mut GHOST_D28: [u32; 28] = [0; 28];
    fn clean_stub_14(_line: &str) -> Option<Vec<u32>> {
        let d = any_frame14();
        unsafe { GHOST_D14 = d };
        Some(d.to_vec())
    }
    fn clean_stub_28(_line: &str) -> Option<Vec<u32>> {
        let d = any_frame28();
        unsafe { GHOST_D28 = d };
        Some(d.to_vec())
    }
    fn clean_stub_none(_line: &str) -> Option<Vec<u32>> {
        None
    }

    //@ob id=C02.get_message.none props=C02 tier=quick kind=harness fns=utils.rs:get_message
    //@region a line whose digit count is not 14/28/26/40 (clean_squitter gives None): not a frame
    #[kani::proof]
    #[kani::stub(clean_squitter, clean_stub_none)]
    fn c02_get_message_none() {
        assert!(get_message("x").is_none(), "no digit vector, no frame");
        kani::cover!(true, "reach_end");
    }

    //@ob id=C02.get_message.agree.14 props=C02,C01 tier=quick kind=harness fns=utils.rs:get_message draw=frame14
    //@region all 14-digit vectors: accepted only if DF<=15 (a 56-bit frame announcing a 112-bit format is not a frame); accepted vector is returned unchanged
    #[kani::proof]
    #[kani::stub(clean_squitter, clean_stub_14)]
    #[kani::unwind(90)]
    fn c02_get_message_agree_14() {
        let r = get_message("x");
        let d = unsafe { GHOST_D14 };
        if let Some(v) = r {
            assert!(slices_eq(&v, &d), "accepted frame is the digit vector itself");
            assert!(agree(&d), "accepted 14-digit frame has DF 0..15");
            kani::cover!(true, "accepted");
        }
        kani::cover!(true, "reach_end");
    }

    //@ob id=C02.get_message.agree.28 props=C02,C01 tier=quick kind=harness fns=utils.rs:get_message draw=frame28
    //@region all 28-digit vectors: accepted only if DF>=16; accepted vector is returned unchanged
    #[kani::proof]
    #[kani::stub(clean_squitter, clean_stub_28)]
    #[kani::unwind(90)]
    fn c02_get_message_agree_28() {
        let r = get_message("x");
        let d = unsafe { GHOST_D28 };
        if let Some(v) = r {
            assert!(slices_eq(&v, &d), "accepted frame is the digit vector itself");
            assert!(agree(&d), "accepted 28-digit frame has DF 16..31");
            kani::cover!(true, "accepted");
        }
        kani::cover!(true, "reach_end");
    }

    //@ob id=C04.get_message.parity.14 props=C04,C02 tier=quick kind=harness fns=utils.rs:get_message,utils/crc.rs:crc56 draw=frame14
    //@region all 14-digit vectors: a DF11 frame is accepted only if the upper 17 bits of its CRC-24 syndrome are zero (all 2^56 bit patterns, hence every error pattern)
    #[kani::proof]
    #[kani::stub(clean_squitter, clean_stub_14)]
    #[kani::unwind(90)]
    #[kani::solver(kissat)]
    fn c04_get_message_parity_14() {
        let r = get_message("x");
        let d = unsafe { GHOST_D14 };
        if r.is_some() {
            assert!(parity_ok(&d), "accepted DF11 frame has syndrome & 0xFFFF80 == 0");
        }
        kani::cover!(r.is_some() && df_of(&d) == 11, "accepted DF11");
        kani::cover!(true, "reach_end");
    }

    //@ob id=C04.get_message.parity.28 props=C04,C02 tier=quick kind=harness fns=utils.rs:get_message,utils/crc.rs:crc112 draw=frame28
    //@region all 28-digit vectors: a DF17/DF18 frame is accepted only if its CRC-24 syndrome is zero (all 2^112 bit patterns)
    #[kani::proof]
    #[kani::stub(clean_squitter, clean_stub_28)]
    #[kani::unwind(90)]
    #[kani::solver(kissat)]
    fn c04_get_message_parity_28() {
        let r = get_message("x");
        let d = unsafe { GHOST_D28 };
        if r.is_some() {
            assert!(parity_ok(&d), "accepted DF17/18 frame has zero syndrome");
        }
        kani::cover!(r.is_some() && df_of(&d) == 17, "accepted DF17");
        kani::cover!(true, "reach_end");
    }

    //@ob id=C02.get_message.complete.14 props=C02 tier=quick kind=harness fns=utils.rs:get_message draw=frame14
    //@region converse for 14 digits: DF<=15 and (DF11 => parity ok) implies the line IS taken as a frame
    #[kani::proof]
    #[kani::stub(clean_squitter, clean_stub_14)]
    #[kani::unwind(90)]
    #[kani::solver(kissat)]
    fn c02_get_message_complete_14() {
        let r = get_message("x");
        let d = unsafe { GHOST_D14 };
        if frame_accepted(&d) {
            assert!(r.is_some(), "a well-formed 56-bit frame is accepted");
        }
        kani::cover!(true, "reach_end");
    }

    //@ob id=C02.get_message.complete.28 props=C02 tier=quick kind=harness fns=utils.rs:get_message draw=frame28
    //@region converse for 28 digits: DF>=16 and (DF17/18 => parity ok) implies the line IS taken as a frame
    #[kani::proof]
    #[kani::stub(clean_squitter, clean_stub_28)]
    #[kani::unwind(90)]
    #[kani::solver(kissat)]
    fn c02_get_message_complete_28() {
        let r = get_message("x");
        let d = unsafe { GHOST_D28 };
        if frame_accepted(&d) {
            assert!(r.is_some(), "a well-formed 112-bit frame is accepted");
        }
        kani::cover!(true, "reach_end");
    }
}
