//@target src/decoder/utils.rs
//@props C02,C04
//@needs C02_clean,L1_crc
//@assume get_message is verified with clean_squitter replaced by a stand-in that returns an arbitrary digit vector of length 14 or 28 (what the proved tail contract C02.clean_tail + T-digits allow it to return) or None

#[cfg(kani)]
mod verif_c02_message {
    use super::*;
    use crate::verif_spec::h::*;
    use crate::verif_spec as vs;

    static mut GHOST_D14: [u32; 14] = [0; 14];
    static mut GHOST_D28: [u32; 28] = [0; 28];
    fn clean_stub_14(_line: &str) -> Option<Vec<u32>> {
        let d = any_frame14();
        unsafe { GHOST_D14 = d };
        Some(d.to_vec())
    }
    fn clean_stub_28(_line: &str) -> Option<Vec<u32>> {
        let d = any_frame28();
        unsafe { GHOST_D28 = d };
        Some(d.to_vec())
    }
    fn clean_stub_none(_line: &str) -> Option<Vec<u32>> {
        None
    }
    // CRC routine stand-in for the modular (quick) obligations: returns an arbitrary 24-bit value
    // c, the same on every call, and records what it was asked about.  By L1.crc56/L1.crc112 +
    // L1.get_crc the real routine returns crc24(data bits), so "c" below reads "the CRC-24 of
    // the data bits".
    static mut G_CRC_INIT: bool = false;
    static mut G_CRC: u32 = 0;
    static mut G_CRC_DF: u32 = 99;
    static mut G_CRC_LEN: usize = 0;
    fn crc_stub(message: &[u32], df: u32) -> u32 {
        unsafe {
            if !G_CRC_INIT {
                G_CRC_INIT = true;
                let c: u32 = kani::any();
                kani::assume(c <= 0xFF_FFFF);
                G_CRC = c;
            }
            G_CRC_DF = df;
            G_CRC_LEN = message.len();
            G_CRC
        }
    }
    /// C04 rule relative to the CRC value the stand-in handed out.  Like the dispatcher
    /// obligations this is tied to today's function boundary: a squitter can only be accepted
    /// after the contracted CRC routine was consulted about it.  (Code that computes the parity
    /// through another routine fails here although it may be right; the end-to-end obligations
    /// C04.get_message.parity.*.e2e - thorough tier, they need tens of minutes - are the arbiter.)
    fn parity_rel(d: &[u32], c: u32) -> bool {
        if !unsafe { G_CRC_INIT } {
            return !matches!(vs::df_of(d), 11 | 17 | 18);
        }
        let syn = c ^ vs::ap_field(d);
        match vs::df_of(d) {
            17 | 18 => syn == 0,
            11 => syn & 0xFF_FF80 == 0,
            _ => true,
        }
    }

    //@ob id=C02.get_message.none flags=noassert props=C02 tier=quick kind=harness fns=utils.rs:get_message
    //@region a line whose digit count is not 14/28/26/40 (clean_squitter gives None): not a frame
    #[kani::proof]
    #[kani::stub(clean_squitter, clean_stub_none)]
    fn c02_get_message_none() {
        assert!(get_message("x").is_none(), "no digit vector, no frame");
        kani::cover!(true, "reach_end");
    }

    //@ob id=C02.get_message.agree.14 flags=noassert props=C02,C01 tier=quick kind=harness fns=utils.rs:get_message draw=frame14 replay=line
    //@region all 14-digit vectors: accepted only if DF<=15 (a 56-bit frame announcing a 112-bit format is not a frame); accepted vector is returned unchanged
    #[kani::proof]
    #[kani::stub(clean_squitter, clean_stub_14)]
    #[kani::unwind(90)]
    #[kani::stub(crate::decoder::utils::crc::get_crc, crc_stub)]
    fn c02_get_message_agree_14() {
        let r = get_message("x");
        let d = unsafe { GHOST_D14 };
        if let Some(v) = r {
            assert!(slices_eq(&v, &d), "accepted frame is the digit vector itself");
            assert!(vs::agree(&d), "accepted 14-digit frame has DF 0..15");
            kani::cover!(true, "accepted");
        }
        kani::cover!(true, "reach_end");
    }

    //@ob id=C02.get_message.agree.28 flags=noassert props=C02,C01 tier=quick kind=harness fns=utils.rs:get_message draw=frame28 replay=line
    //@region all 28-digit vectors: accepted only if DF>=16; accepted vector is returned unchanged
    #[kani::proof]
    #[kani::stub(clean_squitter, clean_stub_28)]
    #[kani::unwind(90)]
    #[kani::stub(crate::decoder::utils::crc::get_crc, crc_stub)]
    fn c02_get_message_agree_28() {
        let r = get_message("x");
        let d = unsafe { GHOST_D28 };
        if let Some(v) = r {
            assert!(slices_eq(&v, &d), "accepted frame is the digit vector itself");
            assert!(vs::agree(&d), "accepted 28-digit frame has DF 16..31");
            kani::cover!(true, "accepted");
        }
        kani::cover!(true, "reach_end");
    }

    //@ob id=C04.get_message.parity.14 flags=noassert props=C04,C02 tier=quick kind=harness fns=utils.rs:get_message,utils/crc.rs:crc56 draw=frame14 replay=line
    //@region all 14-digit vectors: a DF11 frame is accepted only if (CRC-24 of its data bits xor its last 24 bits) has the upper 17 bits zero - for all 2^56 bit patterns, hence every error pattern; CRC routine replaced by its contract (L1.crc56, L1.get_crc)
    #[kani::proof]
    #[kani::stub(clean_squitter, clean_stub_14)]
    #[kani::unwind(90)]
    #[kani::stub(crate::decoder::utils::crc::get_crc, crc_stub)]
    fn c04_get_message_parity_14() {
        let r = get_message("x");
        let d = unsafe { GHOST_D14 };
        if r.is_some() {
            assert!(parity_rel(&d, unsafe { G_CRC }), "accepted DF11 frame: (CRC-24 of the data bits xor PI) & 0xFFFF80 == 0");
            if vs::df_of(&d) == 11 {
                assert!(unsafe { !G_CRC_INIT || (G_CRC_DF == 11 && G_CRC_LEN == 14) }, "CRC routine, if consulted, is asked about this frame as DF11");
            }
        }
        kani::cover!(r.is_some() && vs::df_of(&d) == 11, "accepted DF11");
        kani::cover!(true, "reach_end");
    }

    //@ob id=C04.get_message.parity.28 flags=noassert props=C04,C02 tier=quick kind=harness fns=utils.rs:get_message,utils/crc.rs:crc112 draw=frame28 replay=line
    //@region all 28-digit vectors: a DF17/DF18 frame is accepted only if the CRC-24 of its 88 data bits equals its PI field - for all 2^112 bit patterns; CRC routine replaced by its contract (L1.crc112, L1.get_crc)
    #[kani::proof]
    #[kani::stub(clean_squitter, clean_stub_28)]
    #[kani::unwind(90)]
    #[kani::stub(crate::decoder::utils::crc::get_crc, crc_stub)]
    fn c04_get_message_parity_28() {
        let r = get_message("x");
        let d = unsafe { GHOST_D28 };
        if r.is_some() {
            assert!(parity_rel(&d, unsafe { G_CRC }), "accepted DF17/18 frame: CRC-24 of the data bits == PI field");
            if vs::df_of(&d) == 17 || vs::df_of(&d) == 18 {
                assert!(unsafe { !G_CRC_INIT || (G_CRC_DF == vs::df_of(&d) && G_CRC_LEN == 28) }, "CRC routine, if consulted, is asked about this frame with its DF");
            }
        }
        kani::cover!(r.is_some() && vs::df_of(&d) == 17, "accepted DF17");
        kani::cover!(true, "reach_end");
    }

    //@ob id=C02.get_message.complete.14 flags=noassert props=C02 tier=quick kind=harness fns=utils.rs:get_message draw=frame14 replay=line
    //@region converse for 14 digits: DF<=15 and (DF11 => parity ok) implies the line IS taken as a frame
    #[kani::proof]
    #[kani::stub(clean_squitter, clean_stub_14)]
    #[kani::unwind(90)]
    #[kani::stub(crate::decoder::utils::crc::get_crc, crc_stub)]
    fn c02_get_message_complete_14() {
        let r = get_message("x");
        let d = unsafe { GHOST_D14 };
        if vs::agree(&d) && parity_rel(&d, unsafe { G_CRC }) {
            assert!(r.is_some(), "a well-formed 56-bit frame is accepted");
        }
        kani::cover!(true, "reach_end");
    }

    //@ob id=C02.get_message.complete.28 flags=noassert props=C02 tier=quick kind=harness fns=utils.rs:get_message draw=frame28 replay=line
    //@region converse for 28 digits: DF>=16 and (DF17/18 => parity ok) implies the line IS taken as a frame
    #[kani::proof]
    #[kani::stub(clean_squitter, clean_stub_28)]
    #[kani::unwind(90)]
    #[kani::stub(crate::decoder::utils::crc::get_crc, crc_stub)]
    fn c02_get_message_complete_28() {
        let r = get_message("x");
        let d = unsafe { GHOST_D28 };
        if vs::agree(&d) && parity_rel(&d, unsafe { G_CRC }) {
            assert!(r.is_some(), "a well-formed 112-bit frame is accepted");
        }
        kani::cover!(true, "reach_end");
    }

    //@ob id=C04.get_message.parity.14.e2e flags=noassert mem=high props=C04,C02 tier=thorough kind=harness fns=utils.rs:get_message,utils/crc.rs:crc56 draw=frame14 replay=line
    //@region all 14-digit vectors, end to end without any stand-in for the CRC: accepted iff DF<=15 and (DF11 => spec CRC-24 syndrome & 0xFFFF80 == 0) - whatever routine the code uses
    #[kani::proof]
    #[kani::stub(clean_squitter, clean_stub_14)]
    #[kani::unwind(90)]
    #[kani::solver(kissat)]
    fn c04_get_message_parity_14_e2e() {
        let r = get_message("x");
        let d = unsafe { GHOST_D14 };
        if r.is_some() {
            assert!(vs::frame_accepted(&d), "accepted 14-digit frame: DF<=15 and DF11 parity");
        }
        if vs::frame_accepted(&d) {
            assert!(r.is_some(), "a well-formed 56-bit frame is accepted");
        }
        kani::cover!(r.is_some() && vs::df_of(&d) == 11, "accepted DF11");
        kani::cover!(true, "reach_end");
    }

    //@ob id=C04.get_message.parity.28.e2e flags=noassert mem=high props=C04,C02 tier=thorough kind=harness fns=utils.rs:get_message,utils/crc.rs:crc112 draw=frame28 replay=line
    //@region all 28-digit vectors, end to end without any stand-in for the CRC: accepted iff DF>=16 and (DF17/18 => spec CRC-24 syndrome == 0) - whatever routine the code uses
    #[kani::proof]
    #[kani::stub(clean_squitter, clean_stub_28)]
    #[kani::unwind(90)]
    #[kani::solver(kissat)]
    fn c04_get_message_parity_28_e2e() {
        let r = get_message("x");
        let d = unsafe { GHOST_D28 };
        if r.is_some() {
            assert!(vs::frame_accepted(&d), "accepted 28-digit frame: DF>=16 and DF17/18 parity");
        }
        if vs::frame_accepted(&d) {
            assert!(r.is_some(), "a well-formed 112-bit frame is accepted");
        }
        kani::cover!(r.is_some() && vs::df_of(&d) == 17, "accepted DF17");
        kani::cover!(true, "reach_end");
    }

    // ------------------------------------------------------------------ bounded: concrete frames
    // Cheap safety net for the case where the symbolic obligations above cannot be decided for
    // some implementation of the parity test (seen: an implementation that builds byte vectors
    // exhausts CBMC's memory on symbolic frames): fully concrete digit vectors.
    static mut SAMPLE: usize = 0;
    const DF17_GOOD: [u32; 28] = [8, 13, 4, 0, 6, 2, 1, 13, 5, 8, 12, 3, 8, 2, 13, 6, 9, 0, 12, 8, 10, 12, 2, 8, 6, 3, 10, 7];
    fn clean_stub_sample(_line: &str) -> Option<Vec<u32>> {
        let mut v = DF17_GOOD.to_vec();
        match unsafe { SAMPLE } {
            0 => {}
            1 => v[27] ^= 1,  // last parity bit
            2 => v[10] ^= 8,  // a data bit
            3 => v[2] ^= 2,   // an address bit
            _ => v[20] ^= 15, // a 4-bit burst
        }
        Some(v)
    }

    //@ob id=C04.get_message.concrete_samples flags=noassert props=C04,C02 tier=quick kind=harness fns=utils.rs:get_message bounded=1-intact+4-corrupted-concrete-DF17-frames
    //@region BOUNDED, concrete digit vectors: the intact squitter 8D40621D58C382D690C8AC2863A7 is accepted; the same frame with its last parity bit, a data bit, an address bit or a 4-bit burst flipped is rejected
    #[kani::proof]
    #[kani::stub(clean_squitter, clean_stub_sample)]
    #[kani::unwind(120)]
    fn c04_get_message_concrete_samples() {
        unsafe { SAMPLE = 0 };
        assert!(get_message("x").is_some(), "the intact squitter is accepted");
        let mut k = 1;
        while k <= 4 {
            unsafe { SAMPLE = k };
            assert!(get_message("x").is_none(), "a corrupted squitter is rejected");
            k += 1;
        }
        kani::cover!(true, "reach_end");
    }
}
