//@target src/reader.rs
//@props C01,C02,C03,C04,C12,C13,C16,C19
//@needs L2_row,L3_table,C16_counters,L1_crc,C03_icao
//@extract kind=block_after file=src/reader.rs anchor=for~line~in~reader.split(b'\n').map_while(Result::ok) sig=fn~__verif_line_step(line:~Vec<u8>,~args:~&Args,~planes:~&mut~Planes,~mut~app_state:~&mut~AppCounters,~downlink_error_log_file:~Option<Mutex<File>>,~display_flags:~&DisplayFlags,~headers:~&LegendHeaders)~->~Result<()> subst=continue;=>return~Ok(()); post=Ok(())
//@assume line step = the body of read_lines' `for line in reader.split(b'\n').map_while(Result::ok) { .. }` copied verbatim into a function whose parameters are the locals it mentions, with `continue;` -> `return Ok(());`. DROPPED and not verified: the iterator expression itself (BufRead::split, map_while), the four prologue statements of read_lines (log file creation, legend, headers, counters) and the final Ok(()).
//@assume in L4.line.* get_message is replaced by a stand-in returning None or an arbitrary frame satisfying its proved postcondition (valid digits, DF/length agreement; C02.get_message.*), and update_count / update_aircraft / cleanup / DF::from_message / display_planes by ghost recorders (own obligations: C16.update_count.*, L3.table.*, L2.record.*)

#[cfg(kani)]
mod verif_l4_line {
    use super::*;
    use crate::decoder::verif_row::{ghost_now, now_rec};
    use crate::decoder::Srt;
    use crate::verif_models::{VMap, VOrdMap};
    use crate::verif_spec::h::*;

    static mut SEQ: u32 = 0;
    static mut G_MSG_PTR: *const u32 = core::ptr::null();
    static mut G_MSG_DF: u32 = 99;

    fn gm_none(_s: &str) -> Option<Vec<u32>> {
        None
    }
    fn gm_14(_s: &str) -> Option<Vec<u32>> {
        let d = any_frame14();
        kani::assume(crate::verif_spec::agree(&d));
        let v = d.to_vec();
        unsafe {
            G_MSG_PTR = v.as_ptr();
            G_MSG_DF = crate::verif_spec::df_of(&d);
        }
        Some(v)
    }
    fn gm_28(_s: &str) -> Option<Vec<u32>> {
        let d = any_frame28();
        kani::assume(crate::verif_spec::agree(&d));
        let v = d.to_vec();
        unsafe {
            G_MSG_PTR = v.as_ptr();
            G_MSG_DF = crate::verif_spec::df_of(&d);
        }
        Some(v)
    }

    static mut R_ICAO: Option<u32> = None;
    static mut R_ICAO_ARGS: (*const u32, u32) = (core::ptr::null(), 0);
    fn rec_get_icao(m: &[u32], df: u32) -> Option<u32> {
        unsafe {
            R_ICAO = kani::any();
            R_ICAO_ARGS = (m.as_ptr(), df);
            R_ICAO
        }
    }
    static mut R_COUNT: (u32, u32, u32) = (0, 0, 0); // calls, seq, df
    fn rec_count(_c: &mut AppCounters, df: u32) {
        unsafe {
            SEQ += 1;
            R_COUNT = (R_COUNT.0 + 1, SEQ, df);
        }
    }
    static mut R_FM: (u32, *const u32) = (0, core::ptr::null());
    fn rec_from_message(m: &[u32]) -> core::result::Result<DF, &str> {
        unsafe {
            R_FM = (R_FM.0 + 1, m.as_ptr());
        }
        Ok(DF::SRT(Srt::new()))
    }
    static mut R_UA: (u32, u32) = (0, 0); // calls, seq
    static mut R_UA_ARGS: (*const u32, u32, u32, *const Args) = (core::ptr::null(), 0, 0, core::ptr::null());
    fn rec_update_aircraft(_p: &mut Planes, _dl: &DF, m: &[u32], df: u32, icao: u32, args: &Args) {
        unsafe {
            SEQ += 1;
            R_UA = (R_UA.0 + 1, SEQ);
            R_UA_ARGS = (m.as_ptr(), df, icao, args as *const Args);
        }
    }
    static mut R_CL: (u32, u32) = (0, 0);
    static mut R_CL_DEL: i64 = 0;
    static mut R_CL_NOW_OK: bool = false;
    fn rec_cleanup(_p: &mut Planes, _st: &mut AppCounters, now: chrono::DateTime<chrono::Utc>, delete_after: i64) {
        unsafe {
            SEQ += 1;
            R_CL = (R_CL.0 + 1, SEQ);
            R_CL_DEL = delete_after;
            R_CL_NOW_OK = now == ghost_now();
        }
    }
    static mut R_DISP: u32 = 0;
    fn rec_display(_a: &Args, _p: &mut Planes, _f: &DisplayFlags, _h: &LegendHeaders, _s: &mut AppCounters, _now: chrono::DateTime<chrono::Utc>) {
        unsafe {
            R_DISP += 1;
        }
    }

    fn mk_args(count_df: bool, filter: Option<Vec<u32>>, log_messages: Option<Vec<u32>>, update: i64, delete_after: i64, relaxed: bool, u: bool) -> Args {
        Args {
            count_df,
            display_info: Vec::new(),
            downlink_log: None,
            error_log: None,
            filter,
            format: None,
            log_messages,
            order_by: Vec::new(),
            observer_coord: None,
            relaxed,
            source: String::new(),
            tcp: String::new(),
            update,
            delete_after,
            use_update_method: u,
        }
    }
    /// -M list: concrete contents (a symbolic Vec under slice::contains does not finish in CBMC);
    /// the list only guards an error!() log statement.
    fn log_list(on: bool) -> Option<Vec<u32>> {
        if on { Some(vec![4u32, 17]) } else { None }
    }
    fn any_filter() -> Option<Vec<u32>> {
        if kani::any() { Some(vec![kani::any(), kani::any()]) } else { None }
    }
    fn empty_table() -> Planes {
        Planes { aircrafts: std::sync::Arc::new(std::sync::RwLock::new(VMap::new())) }
    }
    fn counters() -> AppCounters {
        AppCounters { df_count: VOrdMap::new(), timestamp: mk_time(10, 100), cleanup_count: 3 }
    }
    fn untouched(t: &Planes, st: &AppCounters) -> bool {
        t.aircrafts.read().unwrap().len() == 0 && st.df_count.len() == 0 && st.cleanup_count == 3 && st.timestamp == mk_time(10, 100)
    }

    //@ob id=L4.line.rejected flags=noassert props=C02,C04,C13,C01 tier=quick kind=harness fns=reader.rs:read_lines(loop-body)
    //@region one loop iteration for a line that get_message does not take as a frame, every option set: returns normally (the loop goes on with the next line), no counter, table or sweep operation is performed
    #[kani::proof]
    #[kani::unwind(34)]
    #[kani::stub(chrono::Utc::now, now_rec)]
    #[kani::stub(crate::decoder::utils::get_message, gm_none)]
    #[kani::stub(crate::counters::AppCounters::update_count, rec_count)]
    #[kani::stub(crate::decoder::planes::Planes::update_aircraft, rec_update_aircraft)]
    #[kani::stub(crate::decoder::planes::Planes::cleanup, rec_cleanup)]
    #[kani::stub(crate::reader::display_planes, rec_display)]
    fn l4_line_rejected() {
        let args = mk_args(kani::any(), any_filter(), log_list(true), kani::any(), 60, kani::any(), kani::any());
        let mut t = empty_table();
        let mut st = counters();
        let flags = DisplayFlags { bits: kani::any() };
        let headers = LegendHeaders { header: String::new(), separator: String::new() };
        let r = __verif_line_step(b"junk\xff\x00".to_vec(), &args, &mut t, &mut st, None, &flags, &headers);
        assert!(r.is_ok(), "a rejected line does not end processing");
        unsafe {
            assert!(SEQ == 0 && R_COUNT.0 == 0 && R_UA.0 == 0 && R_CL.0 == 0 && R_DISP == 0, "a line that is not a frame causes no counter, table, sweep or display operation");
        }
        assert!(untouched(&t, &st), "table and counters untouched");
        kani::cover!(true, "reach_end");
    }

    fn accepted(n28: bool, log_on: bool) {
        let count_df: bool = kani::any();
        let args = mk_args(count_df, any_filter(), log_list(log_on), kani::any(), kani::any(), kani::any(), kani::any());
        let mut t = empty_table();
        let mut st = counters();
        let flags = DisplayFlags { bits: kani::any() };
        let headers = LegendHeaders { header: String::new(), separator: String::new() };
        let r = __verif_line_step(b"frame".to_vec(), &args, &mut t, &mut st, None, &flags, &headers);
        assert!(r.is_ok(), "an accepted line does not end processing");
        unsafe {
            let df = G_MSG_DF;
            assert!(R_ICAO_ARGS == (G_MSG_PTR, df), "address extracted from this frame with its own DF");
            let filtered_out = match &args.filter {
                Some(f) => f[0] != df && f[1] != df,
                None => false,
            };
            match R_ICAO {
                Some(icao) if !filtered_out => {
                    let mut seq = 0;
                    if count_df {
                        seq += 1;
                        assert!(R_COUNT == (1, seq, df), "-c: this DF counted exactly once, before the table update");
                    } else {
                        assert!(R_COUNT.0 == 0, "without -c nothing is counted");
                    }
                    assert!(R_FM == (1, G_MSG_PTR), "downlink record built from this frame");
                    assert!(R_UA == (1, seq + 1) && R_UA_ARGS == (G_MSG_PTR, df, icao, &args as *const Args), "table updated once with this frame, its DF, its address and the option set");
                    assert!(R_CL == (1, seq + 2) && R_CL_DEL == args.delete_after && R_CL_NOW_OK, "sweep check once after the update, with the receive time and delete_after");
                }
                _ => {
                    assert!(SEQ == 0 && R_COUNT.0 == 0 && R_UA.0 == 0 && R_CL.0 == 0, "zero address or DF excluded by -f: no counter, table or sweep operation");
                    assert!(R_DISP == 0 || !flags.quiet(), "quiet: no display");
                }
            }
            if flags.quiet() {
                assert!(R_DISP == 0, "-i Q: never displays");
            }
        }
        assert!(untouched(&t, &st), "line step itself touches table and counters only through the recorded operations");
        let _ = n28;
        kani::cover!(unsafe { R_UA.0 } == 1, "applied");
        kani::cover!(unsafe { let i = R_ICAO; i.is_some() && R_UA.0 == 0 }, "filtered out");
        kani::cover!(true, "reach_end");
    }

    //@ob id=L4.line.accepted.14 flags=noassert props=C03,C12,C16,C19,C01 tier=quick kind=harness fns=reader.rs:read_lines(loop-body)
    //@region one loop iteration for an accepted 56-bit frame (any DF<=15 frame get_message can return), every -f set of two, -c, -M list [4,17] (14) / off (28), every -u, -d, -R, -U, every display flag set: zero address or DF outside -f -> nothing happens; otherwise count (iff -c) -> update_aircraft(frame, df, address) -> cleanup(now, delete_after), each once, in this order
    #[kani::proof]
    #[kani::unwind(34)]
    #[kani::stub(chrono::Utc::now, now_rec)]
    #[kani::stub(crate::decoder::utils::get_message, gm_14)]
    #[kani::stub(crate::decoder::adsb::icao::get_icao, rec_get_icao)]
    #[kani::stub(<crate::decoder::downlink::dfs::DF as crate::decoder::downlink::dfs::Downlink>::from_message, rec_from_message)]
    #[kani::stub(crate::counters::AppCounters::update_count, rec_count)]
    #[kani::stub(crate::decoder::planes::Planes::update_aircraft, rec_update_aircraft)]
    #[kani::stub(crate::decoder::planes::Planes::cleanup, rec_cleanup)]
    #[kani::stub(crate::reader::display_planes, rec_display)]
    fn l4_line_accepted_14() {
        accepted(false, true);
    }

    //@ob id=L4.line.accepted.28 flags=noassert props=C03,C12,C16,C19,C01 tier=quick kind=harness fns=reader.rs:read_lines(loop-body)
    //@region the same for an accepted 112-bit frame (any DF>=16)
    #[kani::proof]
    #[kani::unwind(34)]
    #[kani::stub(chrono::Utc::now, now_rec)]
    #[kani::stub(crate::decoder::utils::get_message, gm_28)]
    #[kani::stub(crate::decoder::adsb::icao::get_icao, rec_get_icao)]
    #[kani::stub(<crate::decoder::downlink::dfs::DF as crate::decoder::downlink::dfs::Downlink>::from_message, rec_from_message)]
    #[kani::stub(crate::counters::AppCounters::update_count, rec_count)]
    #[kani::stub(crate::decoder::planes::Planes::update_aircraft, rec_update_aircraft)]
    #[kani::stub(crate::decoder::planes::Planes::cleanup, rec_cleanup)]
    #[kani::stub(crate::reader::display_planes, rec_display)]
    fn l4_line_accepted_28() {
        accepted(true, false);
    }
}
