//@target src/counters.rs
//@props C16,C12
//@rewrite {"file":"src/counters.rs","line":"use std::collections::BTreeMap;","with":["use crate::verif_models::VOrdMap as BTreeMap;"],"why":"std BTreeMap is out of CBMC's reach; VOrdMap is the stated ordered-map contract model (/verif/models)"}
//@assume std::collections::BTreeMap behaves as a finite ordered map (entry/or_insert/iter in ascending key order as modelled by /verif/models VOrdMap); counter obligations are BOUNDED to 3 existing counters; per-DF counters stay below i32::MAX (2^31 frames of one DF would overflow `+= 1`)

#[cfg(kani)]
mod verif_c16_counters {
    use super::*;
    use crate::verif_models::VOrdMap;
    use crate::verif_spec::h::*;

    fn sorted_distinct(k: &[u32]) -> bool {
        let mut i = 0;
        while i + 1 < k.len() {
            if k[i] >= k[i + 1] {
                return false;
            }
            i += 1;
        }
        true
    }

    fn check<const N: usize>() {
        let keys: [u32; N] = kani::any();
        let vals: [i32; N] = kani::any();
        kani::assume(sorted_distinct(&keys));
        let mut rows: Vec<(u32, i32)> = Vec::with_capacity(N + 1);
        let mut i = 0;
        while i < N {
            kani::assume(vals[i] >= 1 && vals[i] < i32::MAX);
            rows.push((keys[i], vals[i]));
            i += 1;
        }
        let mut st = AppCounters { df_count: VOrdMap::from_rows(rows), timestamp: mk_time(1, 0), cleanup_count: kani::any() };
        let cc = st.cleanup_count;
        let df: u32 = kani::any();
        st.update_count(df);
        // counter of df: +1 (first occurrence -> 1); every other counter unchanged; order ascending
        let mut seen = false;
        let mut i = 0;
        while i < N {
            if keys[i] == df {
                seen = true;
                assert!(st.df_count.get(&keys[i]) == Some(&(vals[i] + 1)), "counter of this DF goes up by exactly one");
            } else {
                assert!(st.df_count.get(&keys[i]) == Some(&vals[i]), "counters of other DFs unchanged");
            }
            i += 1;
        }
        if !seen {
            assert!(st.df_count.get(&df) == Some(&1), "first frame of a DF counts 1");
            assert!(st.df_count.len() == N + 1, "one counter added");
        } else {
            assert!(st.df_count.len() == N, "no counter added");
        }
        let mut j = 0;
        while j + 1 < st.df_count.rows.len() {
            assert!(st.df_count.rows[j].0 < st.df_count.rows[j + 1].0, "counters listed in ascending DF order");
            j += 1;
        }
        assert!(st.cleanup_count == cc, "sweep counter untouched");
        kani::cover!(N == 0 || seen, "existing counter");
        kani::cover!(!seen, "new counter");
        kani::cover!(true, "reach_end");
    }

    //@ob id=C16.update_count.3 flags=noassert props=C16,C01 tier=quick kind=harness fns=counters.rs:AppCounters::update_count bounded=3-existing-counters
    //@region update_count on 3 existing counters (symbolic DFs and values) x any df: that DF's counter +1 (1 on first occurrence), all others unchanged, ascending order kept
    #[kani::proof]
    #[kani::unwind(8)]
    fn c16_update_count_3() {
        check::<3>();
    }

    //@ob id=C16.update_count.0 flags=noassert props=C16,C01 tier=quick kind=harness fns=counters.rs:AppCounters::update_count bounded=no-existing-counter
    //@region update_count on the empty counter set: first frame counts 1
    #[kani::proof]
    #[kani::unwind(8)]
    fn c16_update_count_0() {
        check::<0>();
    }
}
