//@target src/decoder/downlink/extended/update.rs
//@props C05,C06,C07,C08,C09,C11,C12,C19,C01
//@needs L2_row
//@assume composition (default path): row step = DF::from_message (frame -> record, obligations L2.record.*) followed by update_from_downlink (record -> row, obligations L2.amend.*); the record obligations say which fields a fresh record carries for a frame, the amend obligations are stated for EVERY record satisfying the record invariant (CPR parity <= 1), so the composition is substitution. (End-to-end whole-step obligations on the un-cut code were written and dropped: 300-600 s and > 28 GB each, they exhaust memory; the composition rests on this argument.)

#[cfg(kani)]
pub(crate) mod verif_l2_records {
    use super::*;
    use crate::decoder::plane::verif_row::*;
    use crate::decoder::Downlink;
    use crate::verif_spec::h::*;

    pub fn is_fresh_except(r: &Ext, keep: &[&str]) -> bool {
        let k = |n: &str| {
            let mut i = 0;
            while i < keep.len() {
                if str_eq(keep[i], n) {
                    return true;
                }
                i += 1;
            }
            false
        };
        (k("ais") || r.ais.is_none())
            && (k("category") || r.category.is_none())
            && (k("cpr") || r.cpr.is_none())
            && (k("ground_movement") || r.ground_movement.is_none())
            && (k("grspeed") || r.grspeed.is_none())
            && (k("track") || r.track.is_none())
            && (k("track_source") || r.track_source.is_none())
            && (k("heading") || r.heading.is_none())
            && (k("heading_source") || r.heading_source.is_none())
            && (k("altitude") || r.altitude.is_none())
            && (k("altitude_source") || r.altitude_source.is_none())
            && (k("altitude_delta") || r.altitude_delta.is_none())
            && (k("altitude_gnss") || r.altitude_gnss.is_none())
            && (k("vrate") || r.vrate.is_none())
            && (k("vrate_source") || r.vrate_source.is_none())
            && (k("surveillance_status") || r.surveillance_status.is_none())
            && (k("adsb_version") || r.adsb_version.is_none())
    }

    // ------------------------------------------------------------ Ext::update dispatcher
    static mut R_ARM: u32 = 0;
    static mut R_ARM_CALLS: u32 = 0;
    static mut R_ARM_MSG: *const u32 = core::ptr::null();
    static mut R_ARM_DF: u32 = 0;
    static mut R_ARM_MT: (u32, u32) = (99, 99);
    fn rec(which: u32, r: &Ext, m: &[u32], df: u32) {
        unsafe {
            R_ARM = which;
            R_ARM_CALLS += 1;
            R_ARM_MSG = m.as_ptr();
            R_ARM_DF = df;
            R_ARM_MT = r.message_type;
        }
    }
    fn rec_1_4(r: &mut Ext, m: &[u32]) {
        rec(1, r, m, 0)
    }
    fn rec_5_18(r: &mut Ext, m: &[u32], df: u32) {
        rec(5, r, m, df)
    }
    fn rec_19(r: &mut Ext, m: &[u32]) {
        rec(19, r, m, 0)
    }
    fn rec_20_22(r: &mut Ext, m: &[u32]) {
        rec(20, r, m, 0)
    }
    fn rec_31(r: &mut Ext, m: &[u32]) {
        rec(31, r, m, 0)
    }

    //@ob id=L2.record.ext.dispatch flags=noassert props=C07,C08,C09,C11,C19,C01 tier=quick kind=harness fns=downlink/extended/update.rs:Ext::update draw=frame28
    //@region Ext::from_message for all 112-bit frames: df, address (get_icao), CA and (type code, subtype) recorded before exactly the record handler of the type code runs (1-4, 5-18, 19, 20-22, 31; none otherwise); every other field of the fresh record empty
    #[kani::proof]
    #[kani::unwind(90)]
    #[kani::stub(crate::decoder::downlink::extended::ext::Ext::update_mt_1_4, rec_1_4)]
    #[kani::stub(crate::decoder::downlink::extended::ext::Ext::update_mt_5_18, rec_5_18)]
    #[kani::stub(crate::decoder::downlink::extended::ext::Ext::update_mt_19, rec_19)]
    #[kani::stub(crate::decoder::downlink::extended::ext::Ext::update_mt_20_22, rec_20_22)]
    #[kani::stub(crate::decoder::downlink::extended::ext::Ext::update_mt_31, rec_31)]
    fn l2_record_ext_dispatch() {
        let m = any_frame28();
        let r = Ext::from_message(&m);
        assert!(r.is_ok(), "every frame yields a record");
        let r = r.unwrap();
        let df = crate::decoder::get_downlink_format(&m).unwrap();
        let (tc, st) = crate::decoder::get_message_type(&m);
        assert!(r.df == Some(df), "record df = frame DF");
        assert!(r.icao == crate::decoder::get_icao(&m, df), "record address = get_icao(frame)");
        assert!(r.capability == crate::decoder::get_capability(&m), "record CA");
        assert!(r.message_type == (tc, st), "record (type code, subtype)");
        assert!(is_fresh_except(&r, &[]), "dispatcher itself fills no data field");
        unsafe {
            let want = match tc {
                1..=4 => 1,
                5..=18 => 5,
                19 => 19,
                20..=22 => 20,
                31 => 31,
                _ => 0,
            };
            if want == 0 {
                assert!(R_ARM_CALLS == 0, "type code without a handler: nothing decoded");
            } else {
                assert!(R_ARM_CALLS == 1 && R_ARM == want && R_ARM_MSG == m.as_ptr() && R_ARM_MT == (tc, st), "exactly the record handler of this type code runs, after the type code was recorded");
                if want == 5 {
                    assert!(R_ARM_DF == df, "position handler gets the frame's DF");
                }
            }
        }
        kani::cover!(tc == 19, "TC19");
        kani::cover!(true, "reach_end");
    }

    fn fresh(tc: u32, st: u32) -> Ext {
        let mut r = Ext::new();
        r.message_type = (tc, st);
        r
    }

    //@ob id=L2.record.ext.tc1_4 flags=noassert props=C07,C11,C19,C01 tier=quick kind=harness fns=downlink/extended/update.rs:update_mt_1_4 draw=frame28
    //@region TC1-4 record handler on a fresh record: callsign decoded from this frame, category = (type code, subtype); nothing else
    #[kani::proof]
    #[kani::unwind(34)]
    #[kani::stub(crate::decoder::adsb::ais::ais, ais_rec)]
    fn l2_record_ext_tc1_4() {
        let m = any_frame28();
        let (tc, st): (u32, u32) = (kani::any(), kani::any());
        let mut r = fresh(tc, st);
        r.update_mt_1_4(&m);
        unsafe {
            assert!(G_AIS_CALLS == 1 && G_AIS_MSG == m.as_ptr() && r.ais.as_deref().map_or(false, |s| str_eq(s, "NEWSIGN")), "record callsign = identification decoded from this frame");
        }
        assert!(r.category == Some((tc, st)), "record category = (type code, subtype)");
        assert!(is_fresh_except(&r, &["ais", "category"]), "nothing else filled");
        kani::cover!(true, "reach_end");
    }

    //@ob id=L2.record.ext.tc5_18 flags=noassert props=C05,C08,C11,C19,C01 tier=quick kind=harness fns=downlink/extended/update.rs:update_mt_5_18 draw=frame28
    //@region position record handler on a fresh record, all frames x TC5..18 x df: CPR triple; TC5-8 ground movement + ground track (+ source marks); TC9-18 altitude(frame, df) + surveillance status; nothing else (in particular no altitude for a surface position)
    #[kani::proof]
    #[kani::unwind(34)]
    fn l2_record_ext_tc5_18() {
        let m = any_frame28();
        let (tc, st): (u32, u32) = (kani::any(), kani::any());
        kani::assume(tc >= 5 && tc <= 18);
        let df: u32 = kani::any();
        let mut r = fresh(tc, st);
        r.update_mt_5_18(&m, df);
        assert!(r.cpr == crate::decoder::cpr(&m), "record CPR triple");
        if tc <= 8 {
            assert!(r.ground_movement == crate::decoder::ground_movement(&m), "record ground movement");
            assert!(r.track == crate::decoder::ground_track(&m), "record track = ground track");
            assert!(r.altitude.is_none(), "surface position record carries no altitude");
            assert!(r.track_source == Some('\u{2070}') || r.track_source == Some(' ') || r.track_source.is_none(), "surface record track source mark");
            assert!(is_fresh_except(&r, &["cpr", "ground_movement", "track", "track_source", "altitude_source"]), "nothing else filled");
        } else {
            assert!(r.altitude == crate::decoder::altitude(&m, df), "record altitude = decoded altitude code");
            assert!(r.surveillance_status == Some(crate::decoder::surveillance_status(&m)), "record surveillance status");
            assert!(is_fresh_except(&r, &["cpr", "altitude", "surveillance_status"]), "nothing else filled");
        }
        kani::cover!(tc == 11, "TC11");
        kani::cover!(true, "reach_end");
    }

    //@ob id=L2.record.ext.tc19 flags=noassert props=C09,C11,C19,C01 tier=quick kind=harness fns=downlink/extended/update.rs:update_mt_19 draw=frame28
    //@region velocity record handler on a fresh record, all frames x every subtype: vertical rate, altitude delta; subtype 1/2 (track, ground speed) decoded from this frame with the subtype's unit; subtype 3/4 heading
    #[kani::proof]
    #[kani::unwind(34)]
    #[kani::stub(crate::decoder::ehs::track_and_groundspeed, tgs_rec)]
    fn l2_record_ext_tc19() {
        let m = any_frame28();
        let st: u32 = kani::any();
        let mut r = fresh(19, st);
        r.update_mt_19(&m);
        assert!(r.vrate == crate::decoder::vertical_rate(&m), "record vertical rate");
        assert!(r.altitude_delta == crate::decoder::altitude_delta(&m), "record altitude delta");
        if st == 1 || st == 2 {
            unsafe {
                assert!(G_TGS_CALLS == 1 && G_TGS_MSG == m.as_ptr() && G_TGS_SS == (st == 2), "velocity decoded from this frame with the subtype's unit");
                assert!(r.track == G_TGS_RET.0 && r.grspeed == G_TGS_RET.1, "record (track, ground speed) = decoded velocity");
            }
            assert!(is_fresh_except(&r, &["vrate", "altitude_delta", "track", "grspeed", "track_source"]), "nothing else filled");
        } else if st == 3 || st == 4 {
            assert!(r.heading == crate::decoder::heading(&m), "record heading");
            assert!(is_fresh_except(&r, &["vrate", "altitude_delta", "heading", "heading_source"]), "nothing else filled");
        } else {
            assert!(is_fresh_except(&r, &["vrate", "altitude_delta"]), "nothing else filled");
        }
        kani::cover!(st == 2, "supersonic");
        kani::cover!(true, "reach_end");
    }

    //@ob id=L2.record.ext.tc20_31 flags=noassert props=C11,C19,C01 tier=quick kind=harness fns=downlink/extended/update.rs:update_mt_20_22,downlink/extended/update.rs:update_mt_31 draw=frame28
    //@region TC20-22 / TC31 record handlers on a fresh record: GNSS altitude + surveillance status; ADS-B version
    #[kani::proof]
    #[kani::unwind(34)]
    fn l2_record_ext_tc20_31() {
        let m = any_frame28();
        let mut r = fresh(kani::any(), kani::any());
        if kani::any() {
            r.update_mt_20_22(&m);
            assert!(r.altitude_gnss == crate::decoder::altitude_gnss(&m), "record GNSS altitude");
            assert!(r.surveillance_status == Some(crate::decoder::surveillance_status(&m)), "record surveillance status");
            assert!(is_fresh_except(&r, &["altitude_gnss", "surveillance_status"]), "nothing else filled");
        } else {
            r.update_mt_31(&m);
            assert!(r.adsb_version == crate::decoder::version(&m), "record ADS-B version");
            assert!(is_fresh_except(&r, &["adsb_version"]), "nothing else filled");
        }
        kani::cover!(true, "reach_end");
    }
}
