//@target src/decoder/downlink.rs
//@props C03,C05,C06,C11,C12,C19,C01
//@needs L2_row,L2_records

#[cfg(kani)]
mod verif_l2_records_srt {
    use super::*;
    use crate::decoder;
    use crate::verif_spec::h::*;

    fn check_srt(r: &Srt, m: &[u32]) {
        let df = decoder::get_downlink_format(m).unwrap();
        assert!(r.df == Some(df), "record df = frame DF");
        assert!(r.icao == decoder::get_icao(m, df), "record address = get_icao(frame)");
        if df == 4 {
            assert!(r.altitude == decoder::altitude(m, df), "DF4 record altitude");
        } else {
            assert!(r.altitude.is_none(), "only DF4 records carry an altitude");
        }
        if df == 5 {
            assert!(r.squawk == decoder::squawk(m), "DF5 record squawk");
        } else {
            assert!(r.squawk.is_none(), "only DF5 records carry a squawk");
        }
        if df == 11 {
            assert!(r.capability == Some(decoder::get_capability(m)), "DF11 record CA");
        } else {
            assert!(r.capability.is_none(), "only DF11 records carry CA");
        }
    }

    //@ob id=L2.record.srt.14 flags=noassert props=C03,C05,C06,C11,C19,C01 tier=quick kind=harness fns=downlink/short.rs:Srt::update draw=frame14
    //@region Srt::from_message for all 56-bit frames: df, address, and exactly the one field the format carries (DF4 altitude, DF5 squawk, DF11 CA)
    #[kani::proof]
    #[kani::unwind(90)]
    fn l2_record_srt_14() {
        let m = any_frame14();
        kani::assume(crate::verif_spec::agree(&m)); // frames come from get_message (C02: DF/length agree)
        let r = Srt::from_message(&m);
        assert!(r.is_ok(), "every frame yields a record");
        check_srt(&r.unwrap(), &m);
        kani::cover!(true, "reach_end");
    }

    //@ob id=L2.record.df.14 flags=noassert props=C11,C19,C01 tier=quick kind=harness fns=downlink/dfs.rs:DF::from_message draw=frame14
    //@region DF::from_message for all 56-bit frames: always Ok, always the short-record variant with the contents of Srt::from_message
    #[kani::proof]
    #[kani::unwind(90)]
    fn l2_record_df_14() {
        let m = any_frame14();
        kani::assume(crate::verif_spec::agree(&m)); // frames come from get_message (C02: DF/length agree)
        match DF::from_message(&m) {
            Ok(DF::SRT(r)) => check_srt(&r, &m),
            _ => assert!(false, "56-bit frame: short record"),
        }
        kani::cover!(true, "reach_end");
    }

    //@ob id=L2.record.df.28 flags=noassert mem=high props=C11,C19,C01 tier=quick kind=harness fns=downlink/dfs.rs:DF::from_message,downlink/mode_s.rs:Mds::update draw=frame28
    //@region DF::from_message for all 112-bit frames (agreeing with their DF): always Ok; DF16 short record, DF17 extended record, DF20/21 Comm-B record (address = get_icao), every other format an empty short record (no address: such frames change nothing on the default path)
    #[kani::proof]
    #[kani::unwind(90)]
    #[kani::stub(crate::decoder::adsb::ais::ais, crate::decoder::plane::verif_row::ais_rec)]
    #[kani::stub(crate::decoder::ehs::track_and_groundspeed, crate::decoder::plane::verif_row::tgs_rec)]
    fn l2_record_df_28() {
        let m = any_frame28();
        let df = decoder::get_downlink_format(&m).unwrap();
        kani::assume(df >= 16);
        match DF::from_message(&m) {
            Ok(DF::SRT(r)) => {
                assert!(df != 17 && df != 20 && df != 21, "DF17/20/21 are not short records");
                if df == 16 {
                    check_srt(&r, &m);
                } else {
                    assert!(r.icao.is_none() && r.df.is_none() && r.altitude.is_none() && r.squawk.is_none() && r.capability.is_none(), "unsupported format: empty record");
                }
            }
            Ok(DF::EXT(r)) => {
                assert!(df == 17, "extended record only for DF17");
                assert!(r.icao == decoder::get_icao(&m, df), "record address");
            }
            Ok(DF::MDS(r)) => {
                assert!(df == 20 || df == 21, "Comm-B record only for DF20/21");
                assert!(r.icao == decoder::get_icao(&m, df), "record address");
            }
            Err(_) => assert!(false, "every frame yields a record"),
        }
        kani::cover!(df == 17, "DF17");
        kani::cover!(df == 20, "DF20");
        kani::cover!(true, "reach_end");
    }
}
