//@target src/decoder/downlink.rs
//@props C03,C05,C06,C11,C12,C19,C01
//@needs L2_row,L2_records

#[cfg(kani)]
mod verif_l2_records_srt {
    use super::*;
    use crate::decoder;
    use crate::verif_spec::h::*;

    fn check_srt(r: &Srt, m: &[u32]) {
        let df = decoder::get_downlink_format(m).unwrap();
        assert!(r.df == Some(df), "record df = frame DF");
        assert!(r.icao == decoder::get_icao(m, df), "record address = get_icao(frame)");
        if df == 4 {
            assert!(r.altitude == decoder::altitude(m, df), "DF4 record altitude");
        } else {
            assert!(r.altitude.is_none(), "only DF4 records carry an altitude");
        }
        if df == 5 {
            assert!(r.squawk == decoder::squawk(m), "DF5 record squawk");
        } else {
            assert!(r.squawk.is_none(), "only DF5 records carry a squawk");
        }
        if df == 11 {
            assert!(r.capability == Some(decoder::get_capability(m)), "DF11 record CA");
        } else {
            assert!(r.capability.is_none(), "only DF11 records carry CA");
        }
    }

    //@ob id=L2.record.srt.14 flags=noassert props=C03,C05,C06,C11,C19,C01 tier=quick kind=harness fns=downlink/short.rs:Srt::update draw=frame14
    //@region Srt::from_message for all 56-bit frames: df, address, and exactly the one field the format carries (DF4 altitude, DF5 squawk, DF11 CA)
    #[kani::proof]
    #[kani::unwind(90)]
    fn l2_record_srt_14() {
        let m = any_frame14();
        kani::assume(crate::verif_spec::agree(&m)); // frames come from get_message (C02: DF/length agree)
        let r = Srt::from_message(&m);
        assert!(r.is_ok(), "every frame yields a record");
        check_srt(&r.unwrap(), &m);
        kani::cover!(true, "reach_end");
    }

    //@ob id=L2.record.df.14 flags=noassert props=C11,C19,C01 tier=quick kind=harness fns=downlink/dfs.rs:DF::from_message draw=frame14
    //@region DF::from_message for all 56-bit frames: always Ok, always the short-record variant with the contents of Srt::from_message
    #[kani::proof]
    #[kani::unwind(90)]
    fn l2_record_df_14() {
        let m = any_frame14();
        kani::assume(crate::verif_spec::agree(&m)); // frames come from get_message (C02: DF/length agree)
        match DF::from_message(&m) {
            Ok(DF::SRT(r)) => check_srt(&r, &m),
            _ => assert!(false, "56-bit frame: short record"),
        }
        kani::cover!(true, "reach_end");
    }

    // DF::from_message on 112-bit frames, cut along its own structure (the un-cut obligation needed
    // ~400 s and 10 GB): the dispatcher with the three record builders replaced by recorders, and
    // each builder on its own (Ext: L2.record.ext.*; Srt for DF16 and Mds below).
    static mut B_CALLS: (u32, u32, u32) = (0, 0, 0);
    static mut B_MSG: *const u32 = core::ptr::null();
    fn srt_rec(m: &[u32]) -> Result<Srt, &str> {
        unsafe {
            B_CALLS.0 += 1;
            B_MSG = m.as_ptr();
        }
        Ok(Srt::new())
    }
    fn ext_rec(m: &[u32]) -> Result<Ext, &str> {
        unsafe {
            B_CALLS.1 += 1;
            B_MSG = m.as_ptr();
        }
        Ok(Ext::new())
    }
    fn mds_rec(m: &[u32]) -> Result<Mds, &str> {
        unsafe {
            B_CALLS.2 += 1;
            B_MSG = m.as_ptr();
        }
        Ok(Mds::new())
    }

    //@ob id=L2.record.df.dispatch flags=noassert props=C11,C19,C01 tier=quick kind=harness fns=downlink/dfs.rs:DF::from_message draw=frame28
    //@region DF::from_message for all frames of both lengths' DF values (28-digit vector, any DF): always Ok; DF0..16 -> short record built from this frame, DF17 -> extended record, DF20/21 -> Comm-B record, every other format an EMPTY short record (no builder runs: such frames change nothing but the clock on the default path)
    #[kani::proof]
    #[kani::unwind(90)]
    #[kani::stub(<crate::decoder::downlink::short::Srt as crate::decoder::downlink::dfs::Downlink>::from_message, srt_rec)]
    #[kani::stub(<crate::decoder::downlink::extended::ext::Ext as crate::decoder::downlink::dfs::Downlink>::from_message, ext_rec)]
    #[kani::stub(<crate::decoder::downlink::mode_s::Mds as crate::decoder::downlink::dfs::Downlink>::from_message, mds_rec)]
    fn l2_record_df_dispatch() {
        let m = any_frame28();
        let df = decoder::get_downlink_format(&m).unwrap();
        let r = DF::from_message(&m);
        unsafe {
            match r {
                Ok(DF::SRT(r)) => {
                    assert!(df != 17 && df != 20 && df != 21, "DF17/20/21 are not short records");
                    if df <= 16 {
                        assert!(B_CALLS == (1, 0, 0) && B_MSG == m.as_ptr(), "DF0..16: short record built from this frame");
                    } else {
                        assert!(B_CALLS == (0, 0, 0), "unsupported format: no record builder runs");
                        assert!(r.icao.is_none() && r.df.is_none() && r.altitude.is_none() && r.squawk.is_none() && r.capability.is_none(), "unsupported format: empty record");
                    }
                }
                Ok(DF::EXT(_)) => assert!(df == 17 && B_CALLS == (0, 1, 0) && B_MSG == m.as_ptr(), "extended record only for DF17, built from this frame"),
                Ok(DF::MDS(_)) => assert!((df == 20 || df == 21) && B_CALLS == (0, 0, 1) && B_MSG == m.as_ptr(), "Comm-B record only for DF20/21, built from this frame"),
                Err(_) => assert!(false, "every frame yields a record"),
            }
        }
        kani::cover!(df == 17, "DF17");
        kani::cover!(df == 18, "DF18");
        kani::cover!(true, "reach_end");
    }

    //@ob id=L2.record.srt.28 flags=noassert props=C03,C11,C19,C01 tier=quick kind=harness fns=downlink/short.rs:Srt::update draw=frame28
    //@region Srt::from_message for all 112-bit frames with DF>=16 (DF16 takes this builder): df and address recorded, no altitude/squawk/CA
    #[kani::proof]
    #[kani::unwind(90)]
    fn l2_record_srt_28() {
        let m = any_frame28();
        kani::assume(crate::verif_spec::agree(&m));
        let r = Srt::from_message(&m);
        assert!(r.is_ok(), "every frame yields a record");
        check_srt(&r.unwrap(), &m);
        kani::cover!(true, "reach_end");
    }

    //@ob id=L2.record.mds flags=noassert mem=high props=C11,C19,C01,C10 tier=quick kind=harness fns=downlink/mode_s.rs:Mds::update draw=frame28
    //@region Mds::from_message for all 112-bit frames with DF>=16 (real BDS recognisers): always Ok, no panic/overflow, df and address = get_icao recorded (on the default path a Comm-B record contributes the address only)
    #[kani::proof]
    #[kani::unwind(90)]
    #[kani::stub(crate::decoder::adsb::ais::ais, crate::decoder::plane::verif_row::ais_rec)]
    fn l2_record_mds() {
        let m = any_frame28();
        kani::assume(crate::verif_spec::agree(&m));
        let df = decoder::get_downlink_format(&m).unwrap();
        match Mds::from_message(&m) {
            Ok(r) => {
                assert!(r.df == Some(df), "record df = frame DF");
                assert!(r.icao == decoder::get_icao(&m, df), "record address = get_icao(frame)");
            }
            Err(_) => assert!(false, "every frame yields a record"),
        }
        kani::cover!(true, "reach_end");
    }
}
