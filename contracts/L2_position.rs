//@target src/decoder/plane/update_position.rs
//@props C08,C11
//@needs L2_row
//@assume cpr_location, get_observer_coords and haversine are replaced by ghost recorders in L2.position.rule (their own obligations: C08.cpr_location.*, C08.haversine.*, C08.observer.*)

#[cfg(kani)]
mod verif_l2_position {
    use super::*;
    use crate::decoder::plane::verif_row::*;

    //@ob id=L2.position.rule flags=noassert props=C08,C11,C19,C01 tier=quick kind=harness fns=plane/update_position.rs:update_position
    //@region update_position for every row (CPR slots and both receive times symbolic, any instants of 2026), every type code, both parities: position, distance and position time change ONLY IF both slots are non-zero, the receive times are less than 10 whole seconds apart, the type code is a position type and the global decode of exactly the stored pair anchored on this parity succeeds within [-90,90]x[-180,180]; then they are that decode, the great-circle distance from it to the observer, and the row time stamp; in every other case all three are left as they were. Nothing else in the row changes.
    #[kani::proof]
    #[kani::unwind(34)]
    #[kani::stub(crate::decoder::cpr_location, loc_rec)]
    #[kani::stub(crate::decoder::observer::get_observer_coords, obs_rec)]
    #[kani::stub(haversine, hav_rec)]
    fn l2_position_rule() {
        let old = any_plane(true);
        let mut new = clone_plane(&old);
        let tc: u32 = kani::any();
        let f: u32 = kani::any();
        kani::assume(f <= 1);
        new.update_position(tc, f);
        let paired = pair_ok(&old.cpr_lat, &old.cpr_lon, &old.cpr_time);
        let position_tc = tc >= 5 && tc <= 18;
        let mut committed = false;
        unsafe {
            if paired && position_tc {
                let coeff = if tc <= 8 { 4 } else { 1 };
                assert!(G_LOC_CALLS == 1, "valid even/odd pair: global decode evaluated once");
                assert!(G_LOC_ARGS.0 == old.cpr_lat && G_LOC_ARGS.1 == old.cpr_lon && G_LOC_ARGS.2 == f && G_LOC_ARGS.3 == coeff, "global decode of exactly the stored pair, anchored on this frame's parity (surface: quarter zones)");
                committed = G_LOC_SOME && G_LOC_LAT >= -90.0 && G_LOC_LAT <= 90.0 && G_LOC_LON >= -180.0 && G_LOC_LON <= 180.0;
            }
            if committed {
                assert!(new.lat == G_LOC_LAT && new.lon == G_LOC_LON, "position = global CPR decode of the pair");
                assert!(new.position_timestamp == Some(old.timestamp), "position time stamp = row time stamp (receive time)");
                if G_OBS_SOME {
                    assert!(G_HAV_CALLS == 1 && G_HAV_ARGS == (G_LOC_LAT, G_LOC_LON, G_OBS.0, G_OBS.1), "distance = great-circle distance from the new position to the observer");
                    assert!(new.distance_from_observer == Some(G_HAV_RET), "distance column = that distance");
                } else {
                    assert!(new.distance_from_observer == old.distance_from_observer, "no observer: distance unchanged");
                }
            } else {
                assert!(new.lat == old.lat && new.lon == old.lon, "single frame / 10 s or more apart / zone-straddling / out of range: position left as it was");
                assert!(new.distance_from_observer == old.distance_from_observer, "no new position: distance left as it was");
                assert!(new.position_timestamp == old.position_timestamp, "no new position: position time stamp left as it was");
            }
        }
        // frame: nothing else
        keep_identity(&old, &new);
        keep_altitude(&old, &new);
        keep_gnss(&old, &new);
        keep_squawk(&old, &new);
        keep_callsign(&old, &new);
        keep_category(&old, &new);
        keep_ca(&old, &new);
        keep_cap17(&old, &new);
        keep_velocity(&old, &new);
        keep_vrate(&old, &new);
        keep_heading(&old, &new);
        keep_cpr(&old, &new);
        keep_surface(&old, &new);
        keep_status_version(&old, &new);
        keep_type_code(&old, &new);
        keep_commb_only(&old, &new);
        assert!(new.timestamp == old.timestamp && new.last_df == old.last_df, "clock fields untouched");
        kani::cover!(committed, "position committed");
        kani::cover!(paired && position_tc && !committed, "pair valid but decode rejected");
        kani::cover!(!paired && old.cpr_lat[0] != 0 && old.cpr_lat[1] != 0 && old.cpr_lon[0] != 0 && old.cpr_lon[1] != 0, "both slots filled but 10 s or more apart");
        kani::cover!(true, "reach_end");
    }
}
