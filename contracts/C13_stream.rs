//@target src/reader.rs
//@props C13
//@needs L4_line
//@assume C13.stream.* run the REAL read_lines (prologue, line splitting, lossy UTF-8 conversion, whole pipeline) on a handful of CONCRETE byte streams inside the verifier: a bounded stand-in (a few executions), not a proof over all streams

#[cfg(kani)]
mod verif_c13_stream {
    use super::*;
    use crate::decoder::verif_row::now_rec;
    use crate::verif_models::VMap;

    fn args_quiet() -> Args {
        Args {
            count_df: false,
            display_info: vec![String::from("Q")],
            downlink_log: None,
            error_log: None,
            filter: None,
            format: None,
            log_messages: None,
            order_by: Vec::new(),
            observer_coord: None,
            relaxed: false,
            source: String::new(),
            tcp: String::new(),
            update: 3,
            delete_after: 60,
            use_update_method: false,
        }
    }

    fn run(stream: &[u8]) -> (bool, usize, bool, bool) {
        let args = args_quiet();
        let mut planes = Planes { aircrafts: std::sync::Arc::new(std::sync::RwLock::new(VMap::new())) };
        let r = read_lines(stream, &args, &mut planes);
        let g = planes.aircrafts.read().unwrap();
        (r.is_ok(), g.len(), g.contains_key(&0x40621D), g.contains_key(&0x4840D6))
    }

    //@ob id=C13.stream.junk_between flags=noassert mem=high props=C13 tier=dropped kind=harness fns=reader.rs:read_lines bounded=3-concrete-streams
    //@region the real read_lines on concrete streams: two valid DF17 squitters of two aircraft (a) alone, (b) preceded / separated / followed by junk lines - bytes that are not valid UTF-8, NUL, a lone CR, an empty line, a 13-digit line: processing does not end early and the table is the same as for the clean stream
    #[kani::proof]
    #[kani::unwind(130)]
    #[kani::stub(chrono::Utc::now, now_rec)]
    fn c13_stream_junk_between() {
        let clean: &[u8] = b"8D40621D58C382D690C8AC2863A7\n*8D4840D6202CC371C32CE0576098;\n";
        let junky: &[u8] = b"\xb1\x80\xe1\n8D40621D58C382D690C8AC2863A7\n\xff\xfe\x00\n\r\n\n8D40621D58C38\n*8D4840D6202CC371C32CE0576098;\n\x80";
        let a = run(clean);
        let b = run(junky);
        assert!(a.0 && b.0, "reading ends normally");
        assert!(a.1 == 2 && a.2 && a.3, "clean stream: both aircraft in the table");
        assert!(b == a, "junk lines (incl. invalid UTF-8) affect nothing but themselves and never end processing early");
        kani::cover!(true, "reach_end");
    }
}
