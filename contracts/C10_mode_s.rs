//@target src/decoder/plane/from_squitter.rs
//@props C10,C07,C11
//@needs L2_row
//@assume in C10.mode_s.* the register recognisers (bds, is_bds_1_7/4_0/5_0/6_0/4_4/4_5), the callsign decoder and threat_encounter are ghost stand-ins returning arbitrary results; what they accept and decode is C10.reg* / C07.*. The obligation is the gating, the fixed precedence 1,7 > 4,0 > 5,0 > 6,0 and the copy of the decoded values into the row.

#[cfg(kani)]
mod verif_c10_mode_s {
    use super::*;
    use crate::decoder::plane::verif_row::*;
    use crate::decoder::{Capability, HeadingAndSpeed, Meteo, SelectedVerticalIntention, TrackAndTurn};
    use crate::verif_spec::h::*;

    static mut S_BDS: (u32, u32) = (0, 0);
    fn bds_st(_m: &[u32]) -> (u32, u32) {
        unsafe { S_BDS }
    }
    static mut S_THREAT: Option<char> = None;
    fn threat_st(_m: &[u32]) -> Option<char> {
        unsafe { S_THREAT }
    }
    static mut S17: Option<(u32, bool, bool, bool, bool, bool)> = None;
    fn is17_st(_m: &[u32]) -> Option<Capability> {
        unsafe { S17 }.map(|c| Capability::from_data(c.0, c.1, c.2, c.3, c.4, c.5))
    }
    static mut S40: Option<(Option<u32>, Option<u32>, Option<u32>, Option<u32>)> = None;
    fn is40_st(_m: &[u32]) -> Option<SelectedVerticalIntention> {
        unsafe { S40 }.map(|c| SelectedVerticalIntention::from_data(c.0, c.1, c.2, c.3))
    }
    static mut S50: Option<(Option<i32>, Option<u32>, Option<i32>, Option<u32>, Option<u32>)> = None;
    fn is50_st(_m: &[u32]) -> Option<TrackAndTurn> {
        unsafe { S50 }.map(|c| TrackAndTurn::from_data(c.0, c.1, c.2, c.3, c.4))
    }
    static mut S60: Option<(Option<u32>, Option<u32>, Option<f64>, Option<i32>, Option<i32>)> = None;
    fn is60_st(_m: &[u32]) -> Option<HeadingAndSpeed> {
        unsafe { S60 }.map(|c| HeadingAndSpeed::from_data(c.0, c.1, c.2, c.3, c.4))
    }
    fn is44_st(_m: &[u32]) -> Option<Meteo> {
        None
    }
    fn is45_st(_m: &[u32]) -> Option<f64> {
        None
    }
    fn opt_f64() -> Option<f64> {
        if kani::any() {
            let x: f64 = kani::any();
            kani::assume(!x.is_nan());
            Some(x)
        } else {
            None
        }
    }

    //@ob id=C10.mode_s.precedence flags=noassert props=C10,C07,C11,C01,C19 tier=quick kind=harness fns=plane/from_squitter/from_mode_s.rs:update_from_mode_s draw=frame28
    //@region Comm-B part of the row step for every combination of recogniser results, every row, -R on/off: BDS 2,0 -> callsign, BDS 3,0 -> threat flag; otherwise the first of 1,7 > 4,0 > 5,0 > 6,0 that is recognised AND (for 4,0/5,0/6,0) advertised by the recorded BDS 1,7 report or -R is applied, its decoded values copied into the row; no other parameter changes
    #[kani::proof]
    #[kani::unwind(34)]
    #[kani::stub(crate::decoder::bds::bds, bds_st)]
    #[kani::stub(crate::decoder::adsb::ais::ais, ais_rec)]
    #[kani::stub(crate::decoder::adsb::acas::threat_encounter, threat_st)]
    #[kani::stub(crate::decoder::bds::bds_1_7::is_bds_1_7, is17_st)]
    #[kani::stub(crate::decoder::bds::bds_4_0::is_bds_4_0, is40_st)]
    #[kani::stub(crate::decoder::bds::bds_5_0::is_bds_5_0, is50_st)]
    #[kani::stub(crate::decoder::bds::bds_6_0::is_bds_6_0, is60_st)]
    #[kani::stub(crate::decoder::bds::bds_4_4::is_bds_4_4, is44_st)]
    #[kani::stub(crate::decoder::bds::bds_4_5::is_bds_4_5, is45_st)]
    fn c10_mode_s_precedence() {
        let m = any_frame28();
        let relaxed: bool = kani::any();
        let df: u32 = if kani::any() { 20 } else { 21 };
        let code: u8 = kani::any();
        unsafe {
            S_BDS = match code % 4 {
                0 => (0, 0),
                1 => (1, 0),
                2 => (2, 0),
                _ => (3, 0),
            };
            S_THREAT = kani::any();
            S17 = kani::any();
            S40 = kani::any();
            S50 = kani::any();
            S60 = if kani::any() { Some((kani::any(), kani::any(), opt_f64(), kani::any(), kani::any())) } else { None };
        }
        let old = any_plane(false);
        let mut new = clone_plane(&old);
        new.update_from_mode_s(&m, df, relaxed);
        let (o, n) = (&old, &new);
        let code = unsafe { S_BDS };
        let none = code == (0, 0);
        let r17 = if none { unsafe { S17 } } else { None };
        let gate40 = relaxed || o.capability.1.bds40;
        let gate50 = relaxed || o.capability.1.bds50;
        let gate60 = relaxed || o.capability.1.bds60;
        let r40 = if none && r17.is_none() && gate40 { unsafe { S40 } } else { None };
        let r50 = if none && r17.is_none() && r40.is_none() && gate50 { unsafe { S50 } } else { None };
        let r60 = if none && r17.is_none() && r40.is_none() && r50.is_none() && gate60 { unsafe { S60 } } else { None };
        // callsign: BDS 2,0 only
        if code == (2, 0) {
            assert!(is_new_callsign(n, &m), "BDS 2,0: callsign decoded from this reply");
        } else {
            keep_callsign(o, n);
        }
        if code == (3, 0) {
            assert!(n.threat_encounter == unsafe { S_THREAT }, "BDS 3,0: ACAS threat flag");
        } else {
            assert!(n.threat_encounter == o.threat_encounter, "frame clause: ACAS threat flag unchanged");
        }
        match r17 {
            Some(c) => assert!(cap1_eq(&n.capability.1, &Capability::from_data(c.0, c.1, c.2, c.3, c.4, c.5)), "BDS 1,7: capability report recorded"),
            None => keep_cap17(o, n),
        }
        match r40 {
            Some(v) => {
                assert!(n.selected_altitude == v.0.or(v.1), "BDS 4,0: selected altitude = MCP/FCU value, else FMS value");
                assert!(n.barometric_pressure_setting == v.2, "BDS 4,0: pressure setting");
            }
            None => {
                assert!(n.selected_altitude == o.selected_altitude && n.barometric_pressure_setting == o.barometric_pressure_setting && n.target_altitude_source == o.target_altitude_source,
                    "BDS 4,0 data change only if recognised, advertised (or -R) and no earlier register matches");
            }
        }
        match r50 {
            Some(v) => {
                assert!(n.roll_angle == v.0 && n.track == v.1 && n.track_angle_rate == v.2 && n.grspeed == v.3 && n.true_airspeed == v.4, "BDS 5,0: roll, true track, track rate, ground speed, TAS copied");
                assert!(n.track_source == '\u{2085}', "BDS 5,0: track source mark");
                assert!(n.bds_5_0_timestamp == Some(o.timestamp) && n.track_timestamp == Some(o.timestamp), "BDS 5,0: time stamps");
            }
            None => {
                assert!(n.roll_angle == o.roll_angle && n.track == o.track && n.track_angle_rate == o.track_angle_rate && n.grspeed == o.grspeed && n.true_airspeed == o.true_airspeed && n.track_source == o.track_source,
                    "BDS 5,0 data change only if recognised, advertised (or -R) and no earlier register matches");
                assert!(n.bds_5_0_timestamp == o.bds_5_0_timestamp && n.track_timestamp == o.track_timestamp, "frame clause: BDS 5,0 time stamps unchanged");
            }
        }
        match r60 {
            Some(v) => {
                assert!(n.heading == v.0 && n.indicated_airspeed == v.1 && n.mach_number == v.2, "BDS 6,0: heading, IAS, Mach copied");
                assert!(n.vrate == if v.3.is_some() { v.3 } else { v.4 }, "BDS 6,0: vertical rate = barometric rate, else inertial rate");
                assert!(n.heading_source == '\u{2086}' && n.heading_timestamp == Some(o.timestamp), "BDS 6,0: heading source mark and time stamp");
            }
            None => {
                assert!(n.heading == o.heading && n.indicated_airspeed == o.indicated_airspeed && n.mach_number == o.mach_number && n.vrate == o.vrate && n.vrate_source == o.vrate_source && n.heading_source == o.heading_source && n.heading_timestamp == o.heading_timestamp,
                    "BDS 6,0 data change only if recognised, advertised (or -R) and no earlier register matches");
            }
        }
        assert!(n.temperature == o.temperature && n.wind == o.wind && n.humidity == o.humidity && n.turbulence == o.turbulence && n.pressure == o.pressure, "frame clause: meteo data unchanged");
        // nothing but Comm-B parameters
        keep_identity(o, n);
        keep_altitude(o, n);
        keep_gnss(o, n);
        keep_squawk(o, n);
        keep_category(o, n);
        keep_ca(o, n);
        keep_cpr(o, n);
        keep_position(o, n);
        keep_surface(o, n);
        keep_status_version(o, n);
        keep_type_code(o, n);
        assert!(n.timestamp == o.timestamp && n.last_df == o.last_df, "clock fields untouched");
        kani::cover!(r50.is_some() && !relaxed, "5,0 applied by advertisement");
        kani::cover!(r60.is_some(), "6,0 applied");
        kani::cover!(none && unsafe { S50 }.is_some() && r50.is_none(), "5,0 recognised but gated/preempted");
        kani::cover!(true, "reach_end");
    }

    //@ob id=C10.mode_s.no_panic flags=noassert mem=high props=C01,C10,C19 tier=quick kind=harness fns=plane/from_squitter/from_mode_s.rs:update_from_mode_s,bds.rs:bds,bds/bds_4_4.rs:is_bds_4_4,bds/bds_4_5.rs:is_bds_4_5,meteo.rs:temperature_4_4 draw=frame28
    //@region Comm-B part with the REAL recognisers for all 112-bit frames, every row, -R on/off: no panic, no arithmetic overflow (including the meteorological registers 4,4 / 4,5 the property does not constrain)
    #[kani::proof]
    #[kani::unwind(34)]
    #[kani::stub(crate::decoder::adsb::ais::ais, ais_rec)]
    fn c10_mode_s_no_panic() {
        let m = any_frame28();
        let relaxed: bool = kani::any();
        let df: u32 = if kani::any() { 20 } else { 21 };
        let mut p = any_plane(false);
        p.update_from_mode_s(&m, df, relaxed);
        kani::cover!(p.roll_angle.is_some(), "some 5,0 decoded");
        kani::cover!(true, "reach_end");
    }
}
