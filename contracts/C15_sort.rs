//@target src/decoder/planes.rs
//@props C15
//@needs L3_table
//@assume C15 is BOUNDED to 3 rows; for longer tables the result rests on std sort_by_cached_key being a stable sort. The address pre-sort inside Planes::print (sort_by_cached_key on the key) and the printing itself are not covered (Planes::print formats and writes to stdout). Keys are compared at the granularity the code sorts by (whole degrees / whole km for N,S,W,E,d,D).

#[cfg(kani)]
mod verif_c15_sort {
    use super::verif_l3_table::{mk_args, row};
    use super::*;

    fn any_opt_f64() -> Option<f64> {
        if kani::any() {
            let x: f64 = kani::any();
            kani::assume(!x.is_nan());
            Some(x)
        } else {
            None
        }
    }
    fn key_row(icao: u32) -> Plane {
        let mut p = row(icao);
        p.altitude = kani::any();
        p.squawk = kani::any();
        p.vrate = kani::any();
        kani::assume(p.vrate.map_or(true, |v| v > i32::MIN));
        p.category = (kani::any(), kani::any());
        let lat: f64 = kani::any();
        let lon: f64 = kani::any();
        kani::assume(lat >= -90.0 && lat <= 90.0 && lon >= -180.0 && lon <= 180.0);
        p.lat = lat;
        p.lon = lon;
        p.distance_from_observer = any_opt_f64();
        p
    }

    /// key of the property's alphabet, as a totally ordered integer pair (ascending = down the table)
    fn key(c: char, p: &Plane) -> Option<(i64, i64)> {
        let opt = |o: Option<u32>| match o {
            None => (0, 0),
            Some(v) => (1, v as i64),
        };
        match c {
            's' => Some(opt(p.squawk)),
            'a' => Some(opt(p.altitude)),
            'A' => Some({ let k = opt(p.altitude); (-k.0, -k.1) }),
            'v' => Some((0, p.vrate.unwrap_or(0) as i64)),
            'V' => Some((0, -(p.vrate.unwrap_or(0) as i64))),
            'N' => Some((0, p.lat as i32 as i64)),
            'S' => Some((0, -(p.lat as i32 as i64))),
            'W' => Some((0, p.lon as i32 as i64)),
            'E' => Some((0, -(p.lon as i32 as i64))),
            'd' => Some((0, p.distance_from_observer.unwrap_or(0.0) as i32 as i64)),
            'D' => Some((0, -(p.distance_from_observer.unwrap_or(0.0) as i32 as i64))),
            'c' => Some((p.category.0 as i64, p.category.1 as i64)),
            _ => None,
        }
    }

    fn check_order(k: &[u32; 3], rows: &[Plane; 3], order: &str) {
        let mut args = mk_args(false, false, 60);
        args.order_by = vec![String::from(order)];
        let mut v: Vec<(&u32, &Plane)> = vec![(&k[0], &rows[0]), (&k[1], &rows[1]), (&k[2], &rows[2])];
        sort_printed_planes(&args, &mut v);
        assert!(v.len() == 3, "every aircraft listed");
        let mut i = 0;
        while i < 3 {
            let mut cnt = 0;
            let mut j = 0;
            while j < 3 {
                if *v[j].0 == k[i] && core::ptr::eq(v[j].1, &rows[i]) {
                    cnt += 1;
                }
                j += 1;
            }
            assert!(cnt == 1, "each aircraft listed exactly once, with its own row");
            i += 1;
        }
        // last recognised letter of the (concrete) -o string
        let mut last: Option<char> = None;
        for c in order.chars() {
            if key(c, &rows[0]).is_some() {
                last = Some(c);
            }
        }
        match last {
            Some(c) => {
                let mut i = 0;
                while i + 1 < 3 {
                    let (a, b) = (key(c, v[i].1).unwrap(), key(c, v[i + 1].1).unwrap());
                    assert!(a <= b, "the key of the last recognised -o letter is monotone down the table");
                    i += 1;
                }
            }
            None => {
                assert!(*v[0].0 == k[0] && *v[1].0 == k[1] && *v[2].0 == k[2], "no recognised key: order left as established (ascending address)");
            }
        }
    }

    fn sort_case(orders: &[&str]) {
        let k: [u32; 3] = kani::any();
        kani::assume(k[0] != k[1] && k[0] != k[2] && k[1] != k[2]);
        let rows = [key_row(k[0]), key_row(k[1]), key_row(k[2])];
        let mut i = 0;
        while i < orders.len() {
            check_order(&k, &rows, orders[i]);
            i += 1;
        }
        kani::cover!(true, "reach_end");
    }

    macro_rules! sort_harness {
        ($name:ident, $order:expr) => {
            #[kani::proof]
            #[kani::unwind(16)]
            fn $name() {
                sort_case(&[$order]);
            }
        };
    }
    //@ob id=C15.sort.3.s flags=noassert props=C15 tier=quick kind=harness fns=planes.rs:sort_printed_planes bounded=3-rows
    //@region sort_printed_planes with -o "s" on 3 rows in any input order, symbolic keys incl. blanks and ties: each row listed exactly once; the key of the last recognised letter monotone down the table (no recognised letter: order unchanged, i.e. the ascending address order print() established)
    sort_harness!(c15_sort_3_s, "s");
    //@ob id=C15.sort.3.a flags=noassert props=C15 tier=quick kind=harness fns=planes.rs:sort_printed_planes bounded=3-rows
    //@region sort_printed_planes with -o "a" on 3 rows in any input order, symbolic keys incl. blanks and ties: each row listed exactly once; the key of the last recognised letter monotone down the table (no recognised letter: order unchanged, i.e. the ascending address order print() established)
    sort_harness!(c15_sort_3_a, "a");
    //@ob id=C15.sort.3.A_desc flags=noassert props=C15 tier=quick kind=harness fns=planes.rs:sort_printed_planes bounded=3-rows
    //@region sort_printed_planes with -o "A" on 3 rows in any input order, symbolic keys incl. blanks and ties: each row listed exactly once; the key of the last recognised letter monotone down the table (no recognised letter: order unchanged, i.e. the ascending address order print() established)
    sort_harness!(c15_sort_3_a_desc, "A");
    //@ob id=C15.sort.3.v flags=noassert props=C15 tier=quick kind=harness fns=planes.rs:sort_printed_planes bounded=3-rows
    //@region sort_printed_planes with -o "v" on 3 rows in any input order, symbolic keys incl. blanks and ties: each row listed exactly once; the key of the last recognised letter monotone down the table (no recognised letter: order unchanged, i.e. the ascending address order print() established)
    sort_harness!(c15_sort_3_v, "v");
    //@ob id=C15.sort.3.V_desc flags=noassert props=C15 tier=quick kind=harness fns=planes.rs:sort_printed_planes bounded=3-rows
    //@region sort_printed_planes with -o "V" on 3 rows in any input order, symbolic keys incl. blanks and ties: each row listed exactly once; the key of the last recognised letter monotone down the table (no recognised letter: order unchanged, i.e. the ascending address order print() established)
    sort_harness!(c15_sort_3_v_desc, "V");
    //@ob id=C15.sort.3.N flags=noassert props=C15 tier=quick kind=harness fns=planes.rs:sort_printed_planes bounded=3-rows
    //@region sort_printed_planes with -o "N" on 3 rows in any input order, symbolic keys incl. blanks and ties: each row listed exactly once; the key of the last recognised letter monotone down the table (no recognised letter: order unchanged, i.e. the ascending address order print() established)
    sort_harness!(c15_sort_3_n, "N");
    //@ob id=C15.sort.3.S_desc flags=noassert props=C15 tier=quick kind=harness fns=planes.rs:sort_printed_planes bounded=3-rows
    //@region sort_printed_planes with -o "S" on 3 rows in any input order, symbolic keys incl. blanks and ties: each row listed exactly once; the key of the last recognised letter monotone down the table (no recognised letter: order unchanged, i.e. the ascending address order print() established)
    sort_harness!(c15_sort_3_s_desc, "S");
    //@ob id=C15.sort.3.W flags=noassert props=C15 tier=quick kind=harness fns=planes.rs:sort_printed_planes bounded=3-rows
    //@region sort_printed_planes with -o "W" on 3 rows in any input order, symbolic keys incl. blanks and ties: each row listed exactly once; the key of the last recognised letter monotone down the table (no recognised letter: order unchanged, i.e. the ascending address order print() established)
    sort_harness!(c15_sort_3_w, "W");
    //@ob id=C15.sort.3.E_desc flags=noassert props=C15 tier=quick kind=harness fns=planes.rs:sort_printed_planes bounded=3-rows
    //@region sort_printed_planes with -o "E" on 3 rows in any input order, symbolic keys incl. blanks and ties: each row listed exactly once; the key of the last recognised letter monotone down the table (no recognised letter: order unchanged, i.e. the ascending address order print() established)
    sort_harness!(c15_sort_3_e_desc, "E");
    //@ob id=C15.sort.3.d flags=noassert props=C15 tier=quick kind=harness fns=planes.rs:sort_printed_planes bounded=3-rows
    //@region sort_printed_planes with -o "d" on 3 rows in any input order, symbolic keys incl. blanks and ties: each row listed exactly once; the key of the last recognised letter monotone down the table (no recognised letter: order unchanged, i.e. the ascending address order print() established)
    sort_harness!(c15_sort_3_d, "d");
    //@ob id=C15.sort.3.D_desc flags=noassert props=C15 tier=quick kind=harness fns=planes.rs:sort_printed_planes bounded=3-rows
    //@region sort_printed_planes with -o "D" on 3 rows in any input order, symbolic keys incl. blanks and ties: each row listed exactly once; the key of the last recognised letter monotone down the table (no recognised letter: order unchanged, i.e. the ascending address order print() established)
    sort_harness!(c15_sort_3_d_desc, "D");
    //@ob id=C15.sort.3.c flags=noassert props=C15 tier=quick kind=harness fns=planes.rs:sort_printed_planes bounded=3-rows
    //@region sort_printed_planes with -o "c" on 3 rows in any input order, symbolic keys incl. blanks and ties: each row listed exactly once; the key of the last recognised letter monotone down the table (no recognised letter: order unchanged, i.e. the ascending address order print() established)
    sort_harness!(c15_sort_3_c, "c");
    //@ob id=C15.sort.3.unrecognised flags=noassert props=C15 tier=quick kind=harness fns=planes.rs:sort_printed_planes bounded=3-rows
    //@region sort_printed_planes with -o "x" on 3 rows in any input order, symbolic keys incl. blanks and ties: each row listed exactly once; the key of the last recognised letter monotone down the table (no recognised letter: order unchanged, i.e. the ascending address order print() established)
    sort_harness!(c15_sort_3_unrecognised, "x");
    //@ob id=C15.sort.3.default_sA flags=noassert props=C15 tier=quick kind=harness fns=planes.rs:sort_printed_planes bounded=3-rows
    //@region sort_printed_planes with -o "sA" on 3 rows in any input order, symbolic keys incl. blanks and ties: each row listed exactly once; the key of the last recognised letter monotone down the table (no recognised letter: order unchanged, i.e. the ascending address order print() established)
    sort_harness!(c15_sort_3_default_sa, "sA");
    //@ob id=C15.sort.3.last_unrecognised_ax flags=noassert props=C15 tier=quick kind=harness fns=planes.rs:sort_printed_planes bounded=3-rows
    //@region sort_printed_planes with -o "ax" on 3 rows in any input order, symbolic keys incl. blanks and ties: each row listed exactly once; the key of the last recognised letter monotone down the table (no recognised letter: order unchanged, i.e. the ascending address order print() established)
    sort_harness!(c15_sort_3_last_unrecognised_ax, "ax");
    //@ob id=C15.sort.3.desc_then_asc_As flags=noassert props=C15 tier=quick kind=harness fns=planes.rs:sort_printed_planes bounded=3-rows
    //@region sort_printed_planes with -o "As" (a descending key followed by an ascending one: the direction of an earlier letter must not leak into the last) on 3 rows in any input order, symbolic keys incl. blanks and ties: each row listed exactly once; the key of the last recognised letter monotone down the table in ITS OWN direction
    sort_harness!(c15_sort_3_desc_then_asc_as, "As");
    //@ob id=C15.sort.3.desc_then_asc_Dv flags=noassert props=C15 tier=quick kind=harness fns=planes.rs:sort_printed_planes bounded=3-rows
    //@region sort_printed_planes with -o "Dv" (a descending key followed by an ascending one: the direction of an earlier letter must not leak into the last) on 3 rows in any input order, symbolic keys incl. blanks and ties: each row listed exactly once; the key of the last recognised letter monotone down the table in ITS OWN direction
    sort_harness!(c15_sort_3_desc_then_asc_dv, "Dv");
    //@ob id=C15.sort.3.none_xyz flags=noassert props=C15 tier=quick kind=harness fns=planes.rs:sort_printed_planes bounded=3-rows
    //@region sort_printed_planes with -o "xyz" on 3 rows in any input order, symbolic keys incl. blanks and ties: each row listed exactly once; the key of the last recognised letter monotone down the table (no recognised letter: order unchanged, i.e. the ascending address order print() established)
    sort_harness!(c15_sort_3_none_xyz, "xyz");
}
