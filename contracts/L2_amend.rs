//@target src/decoder/plane.rs
//@props C05,C06,C07,C08,C09,C11,C12,C19,C17
//@needs L2_row
//@assume record invariant (precondition of L2.amend.*, established by L2.record.* + the contract of cpr(): F is one bit): a record's CPR parity is 0 or 1

#[cfg(kani)]
mod verif_l2_amend {
    use super::verif_row::*;
    use super::*;
    use crate::decoder::{Ext, Mds, Srt};
    use crate::verif_spec::h::*;

    fn any_srt() -> Srt {
        Srt { df: kani::any(), icao: kani::any(), squawk: kani::any(), capability: kani::any(), altitude: kani::any() }
    }
    fn any_opt_f64() -> Option<f64> {
        if kani::any() {
            let x: f64 = kani::any();
            kani::assume(!x.is_nan());
            Some(x)
        } else {
            None
        }
    }
    fn any_ext() -> Ext {
        let cpr: Option<(u32, u32, u32)> = kani::any();
        kani::assume(cpr.map_or(true, |c| c.0 <= 1)); // record invariant
        let altitude: Option<u32> = kani::any();
        kani::assume(altitude.map_or(true, |a| a < 100_000)); // altitude()'s own filter
        let altitude_delta: Option<i32> = kani::any();
        kani::assume(altitude_delta.map_or(true, |d| d >= -127 * 25 && d <= 127 * 25)); // 7-bit field x 25 ft
        Ext {
            df: kani::any(),
            icao: kani::any(),
            capability: kani::any(),
            message_type: (kani::any(), kani::any()),
            ais: if kani::any() { Some(String::from("RECSIGN")) } else { None },
            category: kani::any(),
            cpr,
            ground_movement: any_opt_f64(),
            grspeed: kani::any(),
            track: kani::any(),
            track_source: kani::any(),
            heading: kani::any(),
            heading_source: kani::any(),
            altitude,
            altitude_source: kani::any(),
            altitude_delta,
            altitude_gnss: kani::any(),
            vrate: kani::any(),
            vrate_source: kani::any(),
            surveillance_status: kani::any(),
            adsb_version: kani::any(),
        }
    }
    fn any_mds() -> Mds {
        let mut r = Mds::new();
        r.df = kani::any();
        r.icao = kani::any();
        r.altitude = kani::any();
        r.ais = if kani::any() { Some(String::from("MDSSIGN")) } else { None };
        r.selected_altitude = kani::any();
        r.track = kani::any();
        r.grspeed = kani::any();
        r.vrate = kani::any();
        r.heading = kani::any();
        r.roll_angle = kani::any();
        r
    }

    fn keep_rest(o: &Plane, n: &Plane) {
        keep_identity(o, n);
        keep_cap17(o, n);
        keep_commb_only(o, n);
    }

    //@ob id=L2.amend.srt flags=noassert props=C05,C06,C11,C12,C19,C01 tier=quick kind=harness fns=plane/from_downlink.rs:update_from_downlink,plane/from_downlink/from_srt.rs:update_from_downlink
    //@region default path, row <- short record, every record with an address x every row: time stamp = receive time; DF4 record altitude (if any) -> altitude, DF5 record squawk -> squawk, DF11 record CA -> capability; everything else unchanged
    #[kani::proof]
    #[kani::unwind(34)]
    #[kani::stub(chrono::Utc::now, now_rec)]
    fn l2_amend_srt() {
        let r = any_srt();
        kani::assume(r.icao.is_some()); // accepted frames have an address, and the record carries it (L2.record.srt)
        let dl = DF::SRT(r);
        let old = any_plane(false);
        let mut new = clone_plane(&old);
        new.update_from_downlink(&dl);
        let r = match &dl {
            DF::SRT(r) => r,
            _ => unreachable!(),
        };
        assert!(new.last_df == old.last_df || Some(new.last_df) == r.df, "last DF recorded or kept");
        if r.df == Some(4) {
            match r.altitude {
                Some(_) => {
                    assert!(new.altitude == r.altitude, "DF4: altitude = record altitude");
                    assert!(new.altitude_source == ' ', "DF4: altitude source blank");
                }
                None => {
                    assert!(new.altitude.is_none() || new.altitude == old.altitude, "DF4 without a valid altitude: blank or previous value");
                }
            }
        } else {
            keep_altitude(&old, &new);
        }
        if r.df == Some(5) {
            match r.squawk {
                Some(_) => assert!(new.squawk == r.squawk, "DF5: squawk = record squawk"),
                None => assert!(new.squawk.is_none() || new.squawk == old.squawk, "DF5 without squawk: blank or previous"),
            }
        } else {
            keep_squawk(&old, &new);
        }
        if r.df == Some(11) && r.capability.is_some() {
            assert!(Some(new.capability.0) == r.capability, "DF11: capability = record CA");
        } else {
            keep_ca(&old, &new);
        }
        keep_rest(&old, &new);
        keep_gnss(&old, &new);
        keep_callsign(&old, &new);
        keep_category(&old, &new);
        keep_velocity(&old, &new);
        keep_vrate(&old, &new);
        keep_heading(&old, &new);
        keep_cpr(&old, &new);
        keep_position(&old, &new);
        keep_surface(&old, &new);
        keep_status_version(&old, &new);
        keep_type_code(&old, &new);
        check_clock(&new);  // last: natively (playback) the clock stand-in is inactive
        kani::cover!(r.df == Some(4) && r.altitude.is_some(), "DF4 with altitude");
        kani::cover!(true, "reach_end");
    }

    //@ob id=L2.amend.mds flags=noassert props=C11,C12,C01,C19 tier=quick kind=harness fns=plane/from_downlink.rs:update_from_downlink,plane/from_downlink/from_mds.rs:update_from_downlink
    //@region default path, row <- Comm-B record (used when a DF20/21 frame creates a row): contributes the address only; time stamp = receive time
    #[kani::proof]
    #[kani::unwind(34)]
    #[kani::stub(chrono::Utc::now, now_rec)]
    fn l2_amend_mds() {
        let old = any_plane(false);
        let mut r = any_mds();
        r.icao = Some(old.icao); // the table only applies a record to the row of its own address (L3)
        let dl = DF::MDS(r);
        let mut new = clone_plane(&old);
        new.update_from_downlink(&dl);
        keep_rest(&old, &new);
        keep_altitude(&old, &new);
        keep_squawk(&old, &new);
        keep_ca(&old, &new);
        keep_gnss(&old, &new);
        keep_callsign(&old, &new);
        keep_category(&old, &new);
        keep_velocity(&old, &new);
        keep_vrate(&old, &new);
        keep_heading(&old, &new);
        keep_cpr(&old, &new);
        keep_position(&old, &new);
        keep_surface(&old, &new);
        keep_status_version(&old, &new);
        keep_type_code(&old, &new);
        check_clock(&new);  // last: natively (playback) the clock stand-in is inactive
        kani::cover!(true, "reach_end");
    }

    //@ob id=L2.amend.empty flags=noassert props=C12,C11,C01,C19 tier=quick kind=harness fns=plane/from_downlink.rs:update_from_downlink
    //@region default path, row <- a record WITHOUT an address (what DF::from_message builds for DF18, DF19, DF22..31: an accepted frame of a format the default path does not decode), every record variant x every row: the last-contact time stamp still restarts (C12: every accepted frame of any format), nothing else changes
    #[kani::proof]
    #[kani::unwind(34)]
    #[kani::stub(chrono::Utc::now, now_rec)]
    #[kani::stub(crate::decoder::plane::Plane::update_position, pos_rec)]
    fn l2_amend_empty() {
        let which: u8 = kani::any();
        let dl = match which % 3 {
            0 => {
                let mut r = any_srt();
                r.icao = None;
                DF::SRT(r)
            }
            1 => {
                let mut r = any_ext();
                r.icao = None;
                DF::EXT(r)
            }
            _ => {
                let mut r = any_mds();
                r.icao = None;
                DF::MDS(r)
            }
        };
        let old = any_plane(false);
        let mut new = clone_plane(&old);
        new.update_from_downlink(&dl);
        keep_rest(&old, &new);
        keep_altitude(&old, &new);
        keep_squawk(&old, &new);
        keep_ca(&old, &new);
        keep_gnss(&old, &new);
        keep_callsign(&old, &new);
        keep_category(&old, &new);
        keep_velocity(&old, &new);
        keep_vrate(&old, &new);
        keep_heading(&old, &new);
        keep_cpr(&old, &new);
        keep_position(&old, &new);
        keep_surface(&old, &new);
        keep_status_version(&old, &new);
        keep_type_code(&old, &new);
        check_clock(&new);  // last: natively (playback) the clock stand-in is inactive
        kani::cover!(which % 3 == 0, "empty short record");
        kani::cover!(true, "reach_end");
    }

    fn amend_ext(tc_lo: u32, tc_hi: u32) {
        let r = any_ext();
        kani::assume(r.icao.is_some());
        kani::assume(r.message_type.0 >= tc_lo && r.message_type.0 <= tc_hi);
        let dl = DF::EXT(r);
        let old = any_plane(false);
        let mut new = clone_plane(&old);
        new.update_from_downlink(&dl);
        let r = match &dl {
            DF::EXT(r) => r,
            _ => unreachable!(),
        };
        let (tc, st) = r.message_type;
        let o = &old;
        let n = &new;
        assert!(n.last_df == o.last_df || Some(n.last_df) == r.df, "last DF recorded or kept");
        assert!(n.last_type_code == tc, "last type code recorded");
        assert!(n.capability.0 == o.capability.0 || n.capability.0 == r.capability, "DF17: CA capability kept or recorded");
        keep_rest(o, n);
        keep_squawk(o, n);
        if tc >= 1 && tc <= 4 {
            if r.ais.is_some() {
                assert!(n.ais == r.ais, "TC1-4: callsign = record callsign");
                assert!(n.category == (tc, st), "TC1-4: category = (type code, subtype)");
            } else {
                assert!(n.ais.is_none() || n.ais == o.ais, "TC1-4 without callsign: blank or previous");
            }
        } else {
            keep_callsign(o, n);
            keep_category(o, n);
        }
        if tc >= 9 && tc <= 18 {
            assert!(n.altitude == r.altitude, "TC9-18: altitude = record altitude");
            assert!(n.altitude_source == ' ', "TC9-18: altitude source blank");
        } else if tc >= 5 && tc <= 8 {
            assert!(n.altitude == r.altitude, "TC5-8: altitude = record altitude (empty for a surface record: blanked)");
            assert!(n.altitude_source == '\u{2070}', "TC5-8: altitude source mark");
        } else if tc == 19 && (st == 3 || st == 4) {
            assert!(n.altitude == o.altitude, "TC19: altitude unchanged");
            assert!(n.altitude_source == '"', "TC19 subtype 3/4: altitude source mark");
        } else {
            keep_altitude(o, n);
        }
        if (tc >= 9 && tc <= 18) || (tc >= 20 && tc <= 22) {
            assert!(n.surveillance_status == r.surveillance_status.unwrap_or(' '), "TC9-18/20-22: surveillance status = record status");
        } else {
            assert!(n.surveillance_status == o.surveillance_status, "frame clause: surveillance status unchanged");
        }
        if tc == 31 {
            assert!(n.adsb_version == r.adsb_version, "TC31: ADS-B version = record version");
        } else {
            assert!(n.adsb_version == o.adsb_version, "frame clause: ADS-B version unchanged");
        }
        if tc >= 20 && tc <= 22 {
            assert!(n.altitude_gnss == r.altitude_gnss, "TC20-22: GNSS altitude = record value");
        } else if tc == 19 {
            match (o.altitude, r.altitude_delta) {
                (Some(a), Some(d)) => assert!(n.altitude_gnss == Some((a as i32 + d) as u32), "TC19: GNSS altitude = barometric + delta"),
                _ => assert!(n.altitude_gnss == o.altitude_gnss, "TC19 without altitude or delta: GNSS altitude unchanged"),
            }
        } else {
            keep_gnss(o, n);
        }
        if tc == 19 {
            assert!(n.vrate == r.vrate, "TC19: vertical rate = record vertical rate");
            assert!(n.vrate_source == ' ', "TC19: vertical rate source blank");
            if st == 1 || st == 2 {
                assert!(n.track == r.track, "TC19 subtype 1/2: track = record track (the decoded velocity must reach the row)");
                assert!(n.grspeed == r.grspeed, "TC19 subtype 1/2: ground speed = record ground speed (the decoded velocity must reach the row)");
                assert!(n.track_source == if st == 1 { '\u{2081}' } else { '\u{2082}' }, "TC19 subtype 1/2: track source mark");
                keep_heading(o, n);
            } else if st == 3 || st == 4 {
                assert!(n.heading == r.heading, "TC19 subtype 3/4: heading = record heading");
                assert!(n.heading_source == '\u{2083}', "TC19 subtype 3/4: heading source mark");
                keep_velocity(o, n);
            } else {
                keep_velocity(o, n);
                keep_heading(o, n);
            }
        } else {
            keep_vrate(o, n);
            keep_heading(o, n);
            if tc >= 5 && tc <= 8 {
                assert!(n.track == r.track, "TC5-8: track = record ground track");
                assert!(n.track_source == r.track_source.unwrap_or(' '), "TC5-8: track source mark of the record");
                assert!(n.grspeed == o.grspeed, "frame clause: ground speed unchanged");
            } else {
                keep_velocity(o, n);
            }
        }
        if tc >= 5 && tc <= 8 {
            assert!(n.ground_movement == r.ground_movement, "TC5-8: ground movement = record value");
        } else {
            keep_surface(o, n);
        }
        keep_position(o, n); // only update_position (stand-in here) may move the position
        if tc >= 5 && tc <= 18 {
            match r.cpr {
                Some((f, la, lo)) => {
                    let fi = f as usize;
                    let other = 1 - fi;
                    assert!(n.cpr_lat[fi] == la && n.cpr_lon[fi] == lo, "CPR fields of the record stored in the slot of its parity");
                    assert!(n.cpr_time[fi] == n.timestamp, "CPR receive time = the row's time stamp (receive time of this frame)");
                    assert!(n.cpr_lat[other] == o.cpr_lat[other] && n.cpr_lon[other] == o.cpr_lon[other] && n.cpr_time[other] == o.cpr_time[other], "the other parity's stored CPR data unchanged");
                    unsafe {
                        assert!(G_POS_CALLS == 1 && G_POS_ARGS == (tc, f), "position update requested once, for this type code and parity");
                        assert!(G_POS_LAT == n.cpr_lat && G_POS_LON == n.cpr_lon && G_POS_T_EQ, "position update sees the freshly stored slot");
                    }
                }
                None => keep_cpr(o, n),
            }
        } else {
            keep_cpr(o, n);
            assert!(unsafe { G_POS_CALLS } == 0, "no position update for a non-position type code");
        }
        check_clock(n);  // last: natively (playback) the clock stand-in is inactive
        kani::cover!(true, "reach_end");
    }

    macro_rules! amend_ext_harness {
        ($name:ident, $lo:expr, $hi:expr) => {
            #[kani::proof]
            #[kani::unwind(34)]
            #[kani::stub(chrono::Utc::now, now_rec)]
            #[kani::stub(crate::decoder::plane::Plane::update_position, pos_rec)]
            fn $name() {
                amend_ext($lo, $hi);
            }
        };
    }
    //@ob id=L2.amend.ext.tc0_4 flags=noassert props=C07,C11,C12,C19,C01 tier=quick kind=harness fns=plane/from_downlink/from_ext.rs:update_from_downlink,plane/from_downlink/from_ext.rs:amend_from_ext_1_4
    //@region default path, row <- extended record with type code 0..4, every record x every row: callsign + category from the record (TC1-4); clock; nothing else
    amend_ext_harness!(l2_amend_ext_tc0_4, 0, 4);
    //@ob id=L2.amend.ext.tc5_18 flags=noassert props=C05,C08,C11,C12,C19,C01 tier=quick kind=harness fns=plane/from_downlink/from_ext.rs:amend_from_ext_5_8,plane/from_downlink/from_ext.rs:amend_from_ext_9_18,plane/from_downlink/from_ext.rs:amend_cpr
    //@region default path, row <- position record TC5..18: altitude (blank for surface), status, ground fields, CPR slot stored + stamped with the refreshed row time stamp + position update requested
    amend_ext_harness!(l2_amend_ext_tc5_18, 5, 18);
    //@ob id=L2.amend.ext.tc19 flags=noassert props=C09,C11,C12,C19,C01 tier=quick kind=harness fns=plane/from_downlink/from_ext.rs:amend_from_ext_19
    //@region default path, row <- velocity record TC19, every subtype: vertical rate, track and ground speed FROM THE RECORD (subtype 1/2), heading (3/4), GNSS altitude from delta
    amend_ext_harness!(l2_amend_ext_tc19, 19, 19);
    //@ob id=L2.amend.ext.tc20_up flags=noassert props=C11,C12,C19,C01 tier=quick kind=harness fns=plane/from_downlink/from_ext.rs:amend_from_ext_20_22,plane/from_downlink/from_ext.rs:amend_from_ext_31
    //@region default path, row <- extended record with type code >= 20: GNSS altitude + status (20-22), version (31), nothing for the rest
    amend_ext_harness!(l2_amend_ext_tc20_up, 20, u32::MAX);

    // ------------------------------------------------------------ creation
    pub fn is_blank(p: &Plane) -> bool {
        p.capability.0 == 0
            && cap1_eq(&p.capability.1, &crate::decoder::Capability::new())
            && p.category == (0, 0)
            && p.ais.is_none()
            && p.altitude.is_none()
            && p.altitude_gnss.is_none()
            && p.selected_altitude.is_none()
            && p.barometric_pressure_setting.is_none()
            && p.squawk.is_none()
            && p.threat_encounter.is_none()
            && p.vrate.is_none()
            && p.cpr_lat == [0, 0]
            && p.cpr_lon == [0, 0]
            && p.lat == 0.0
            && p.lon == 0.0
            && p.distance_from_observer.is_none()
            && p.grspeed.is_none()
            && p.true_airspeed.is_none()
            && p.indicated_airspeed.is_none()
            && p.mach_number.is_none()
            && p.ground_movement.is_none()
            && p.track.is_none()
            && p.heading.is_none()
            && p.roll_angle.is_none()
            && p.track_angle_rate.is_none()
            && p.bds_5_0_timestamp.is_none()
            && p.temperature.is_none()
            && p.wind.is_none()
            && p.turbulence.is_none()
            && p.humidity.is_none()
            && p.pressure.is_none()
            && p.position_timestamp.is_none()
            && p.track_timestamp.is_none()
            && p.heading_timestamp.is_none()
            && p.adsb_version.is_none()
    }

    //@ob id=L2.create.blank flags=noassert props=C12,C11,C01,C19 tier=quick kind=harness fns=plane.rs:Plane::new
    //@region Plane::new: a fresh row remembers nothing (every parameter blank, CPR slots empty, time stamps = creation time)
    #[kani::proof]
    #[kani::unwind(34)]
    #[kani::stub(chrono::Utc::now, now_rec)]
    fn l2_create_blank() {
        let p = Plane::new();
        assert!(is_blank(&p), "fresh row: every parameter blank");
        assert!(p.timestamp == ghost_now() && p.cpr_time[0] == ghost_now() && p.cpr_time[1] == ghost_now(), "fresh row: time stamps = creation time");
        kani::cover!(true, "reach_end");
    }

    //@ob id=L2.create.from_downlink flags=noassert props=C12,C11,C03,C17,C01,C19 tier=quick kind=harness fns=plane.rs:Plane::from_downlink
    //@region Plane::from_downlink(record, key) for every record variant and key: = blank row with icao = key, reg = icao_to_country(key), then the record applied (so creation obeys the same L2.amend contracts from the blank state)
    #[kani::proof]
    #[kani::unwind(34)]
    #[kani::stub(chrono::Utc::now, now_rec)]
    #[kani::stub(crate::decoder::plane::Plane::update_position, pos_rec)]
    fn l2_create_from_downlink() {
        let key: u32 = kani::any();
        kani::assume(key != 0 && key <= 0xFF_FFFF);
        let which: u8 = kani::any();
        let dl = match which % 3 {
            0 => DF::SRT(any_srt()),
            1 => DF::EXT(any_ext()),
            _ => {
                let mut r = any_mds();
                r.icao = if kani::any() { Some(key) } else { None };
                DF::MDS(r)
            }
        };
        let made = Plane::from_downlink(&dl, key);
        let mut want = Plane::new();
        assert!(is_blank(&want), "starts from a blank row");
        want.icao = key;
        want.reg = super::super::icao_to_country(key).1;
        want.update_from_downlink(&dl);
        assert!(made.icao == key, "row address = key");
        assert!(made.reg.as_ptr() == want.reg.as_ptr() && made.reg.len() == want.reg.len(), "row country = icao_to_country(key)");
        // same result as applying the record to the blank row of that key
        assert!(made.altitude == want.altitude && made.altitude_source == want.altitude_source && made.altitude_gnss == want.altitude_gnss, "creation = record applied to a blank row (altitude)");
        assert!(made.squawk == want.squawk && made.capability.0 == want.capability.0 && cap1_eq(&made.capability.1, &want.capability.1), "creation = record applied to a blank row (squawk, capability)");
        assert!(made.ais == want.ais && made.category == want.category, "creation = record applied to a blank row (callsign, category)");
        assert!(made.track == want.track && made.grspeed == want.grspeed && made.vrate == want.vrate && made.heading == want.heading, "creation = record applied to a blank row (velocity)");
        assert!(made.cpr_lat == want.cpr_lat && made.cpr_lon == want.cpr_lon && made.lat == want.lat && made.lon == want.lon && made.distance_from_observer == want.distance_from_observer, "creation = record applied to a blank row (position)");
        assert!(made.surveillance_status == want.surveillance_status && made.adsb_version == want.adsb_version && made.last_type_code == want.last_type_code && made.ground_movement == want.ground_movement, "creation = record applied to a blank row (status)");
        assert!(made.timestamp == ghost_now(), "fresh row: last-contact = receive time of the creating frame");
        keep_commb_only(&want, &made);
        kani::cover!(true, "reach_end");
    }
}
