//@target src/decoder/adsb/icao.rs
//@props C03
//@needs L0_calc,L1_crc
//@attach fn=get_icao
//@| #[cfg_attr(kani, kani::requires(crate::verif_spec::valid_msg(message) && df == crate::verif_spec::df_of(message) && crate::verif_spec::agree(message)))]
//@| #[cfg_attr(kani, kani::ensures(|r: &Option<u32>| !matches!(df, 0 | 4 | 5 | 11 | 16 | 17 | 18 | 20 | 21) || *r == crate::verif_spec::spec_icao(message)))]
//@attach fn=get_wake_turbulence_category
//@| #[cfg_attr(kani, kani::ensures(|r: &Option<char>| *r == crate::verif_spec::spec_wake(vc.0, vc.1)))]

#[cfg(kani)]
mod verif_c03_icao {
    use super::*;
    use crate::verif_spec::h::*;

    //@ob id=C03.get_icao.14 props=C03 tier=quick kind=contract fns=adsb/icao.rs:get_icao draw=frame14
    //@region all short frames (DF0..15): DF11 -> AA field; DF0/4/5 -> last 24 bits xor CRC-24 of the first 32; zero address dropped
    #[kani::proof_for_contract(get_icao)]
    #[kani::stub_verified(get_crc)]
    #[kani::unwind(34)]
    fn c03_get_icao_14() {
        let m = any_frame14();
        let df: u32 = kani::any();
        get_icao(&m, df);
        kani::cover!(true, "reach_end");
    }

    //@ob id=C03.get_icao.28 props=C03 tier=quick kind=contract fns=adsb/icao.rs:get_icao draw=frame28
    //@region all long frames (DF16..31): DF17/18 -> AA field; DF16/20/21 -> last 24 bits xor CRC-24 of the first 88; zero address dropped
    #[kani::proof_for_contract(get_icao)]
    #[kani::stub_verified(get_crc)]
    #[kani::unwind(34)]
    fn c03_get_icao_28() {
        let m = any_frame28();
        let df: u32 = kani::any();
        get_icao(&m, df);
        kani::cover!(true, "reach_end");
    }

    //@ob id=C07.wake_table props=C07 tier=quick kind=contract fns=adsb/icao.rs:get_wake_turbulence_category
    //@region all (u32,u32) category pairs: TC4 with CA 1,2,3,4,5,7 -> L,S,M,H,J,R; blank otherwise
    #[kani::proof_for_contract(get_wake_turbulence_category)]
    fn c07_wake_table() {
        let vc: (u32, u32) = kani::any();
        get_wake_turbulence_category(&vc);
        kani::cover!(true, "reach_end");
    }
}
