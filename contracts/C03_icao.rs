//@target src/decoder/adsb/icao.rs
//@props C03
//@needs L0_calc,L1_crc
// get_icao carries no attached Kani contract: its contract is the harness-form obligation
// C03.get_icao.* below (requires valid_msg && df == DF(frame) && DF/length agree; ensures the
// address rule), because the line-step obligations replace get_icao by a stand-in and Kani cannot
// stub a function that has contract attributes.
//@attach fn=get_wake_turbulence_category
//@| #[cfg_attr(kani, kani::ensures(|r: &Option<char>| *r == crate::verif_spec::spec_wake(vc.0, vc.1)))]

#[cfg(kani)]
mod verif_c03_icao {
    use super::*;
    use crate::verif_spec::h::*;

    fn check(m: &[u32]) {
        let df = crate::verif_spec::df_of(m);
        kani::assume(crate::verif_spec::agree(m));
        let r = get_icao(m, df);
        if matches!(df, 0 | 4 | 5 | 11 | 16 | 17 | 18 | 20 | 21) {
            assert!(r == crate::verif_spec::icao_from(m, get_crc(m, df)), "address = AA field (DF11/17/18) or AP xor CRC-24 of the preceding bits (DF0/4/5/16/20/21); zero dropped");
        }
    }

    //@ob id=C03.get_icao.14 flags=noassert props=C03,C01 tier=quick kind=harness fns=adsb/icao.rs:get_icao draw=frame14 replay=icao
    //@region all short frames (DF0..15): DF11 -> AA field; DF0/4/5 -> last 24 bits xor get_crc (pinned to CRC-24 by L1.crc56 + L1.get_crc); zero address dropped
    #[kani::proof]
    #[kani::unwind(90)]
    fn c03_get_icao_14() {
        let m = any_frame14();
        check(&m);
        kani::cover!(true, "reach_end");
    }

    //@ob id=C03.get_icao.28 flags=noassert props=C03,C01 tier=quick kind=harness fns=adsb/icao.rs:get_icao draw=frame28 replay=icao
    //@region all long frames (DF16..31): DF17/18 -> AA field; DF16/20/21 -> last 24 bits xor get_crc (pinned by L1.crc112 + L1.get_crc); zero address dropped
    #[kani::proof]
    #[kani::unwind(90)]
    fn c03_get_icao_28() {
        let m = any_frame28();
        check(&m);
        kani::cover!(true, "reach_end");
    }

    //@ob id=C07.wake_table props=C07 tier=quick kind=contract fns=adsb/icao.rs:get_wake_turbulence_category
    //@region all (u32,u32) category pairs: TC4 with CA 1,2,3,4,5,7 -> L,S,M,H,J,R; blank otherwise
    #[kani::proof_for_contract(get_wake_turbulence_category)]
    fn c07_wake_table() {
        let vc: (u32, u32) = kani::any();
        get_wake_turbulence_category(&vc);
        kani::cover!(true, "reach_end");
    }
}
