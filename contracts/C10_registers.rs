//@target src/decoder/bds.rs
//@props C10,C01
//@assume C10 'all status bits': for BDS 4,0 the status bits of the three displayed fields (33, 46, 59) and the reserved bits 72-79, 84-85; the MCP-mode and target-source status bits (48..51 subfields, 80, 86) are not required. 'Integers truncated' is accepted as floor or toward-zero: |shown - exact| < 1 unit.
//@assume T-doc9871: /verif/spec/bds.rs is the transcription of ICAO Doc 9871 field positions and scalings (no copy of the document on this machine)

#[cfg(kani)]
mod verif_c10_registers {
    use super::*;
    use crate::verif_spec as vs;
    use crate::verif_spec::h::*;

    //@ob id=C10.reg40.only_if flags=noassert props=C10,C01 tier=quick kind=harness fns=bds/bds_4_0.rs:is_bds_4_0,ehs/bds_4_0.rs:mcp_selected_altitude,ehs/bds_4_0.rs:fms_selected_altitude,ehs/bds_4_0.rs:barometric_pressure_setting,bds.rs:goodflags draw=frame28
    //@region all 112-bit frames: a frame is decoded as BDS 4,0 only if status bits 33/46/59 are set and reserved bits 72-79, 84-85 are zero; then MCP/FMS selected altitude = 12-bit field x 16 ft and pressure setting = field x 0.1 mb + 800 (truncated)
    #[kani::proof]
    #[kani::unwind(34)]
    fn c10_reg40_only_if() {
        let m = any_frame28();
        if let Some(r) = is_bds_4_0(&m) {
            assert!(vs::status_40(&m), "BDS 4,0 accepted: status bits 33, 46, 59 set");
            assert!(vs::reserved_zero_40(&m), "BDS 4,0 accepted: reserved bits 72-79 and 84-85 zero");
            if let Some(v) = r.mcp_selected_altitude {
                assert!(v == vs::mcp_alt_40(&m), "MCP/FCU selected altitude = bits 34-45 x 16 ft");
            }
            if let Some(v) = r.fms_selected_altitude {
                assert!(v == vs::fms_alt_40(&m), "FMS selected altitude = bits 47-58 x 16 ft");
            }
            if let Some(v) = r.barometric_pressure_setting {
                assert!(v == vs::baro_40(&m), "pressure setting = bits 60-71 x 0.1 mb + 800, truncated");
            }
            assert!(r.mcp_selected_altitude.is_some() || r.fms_selected_altitude.is_some(), "an accepted BDS 4,0 carries a selected altitude");
            kani::cover!(true, "accepted");
        }
        kani::cover!(true, "reach_end");
    }

    //@ob id=C10.reg40.converse flags=noassert props=C10,C01 tier=quick kind=harness fns=bds/bds_4_0.rs:is_bds_4_0 draw=frame28
    //@region all 112-bit frames whose MB field is a plausible BDS 4,0 (status bits set, reserved zero, every value field non-zero, pressure <= 1210 mb): decoded as BDS 4,0 with the MCP altitude shown
    #[kani::proof]
    #[kani::unwind(34)]
    fn c10_reg40_converse() {
        let m = any_frame28();
        kani::assume(vs::plausible_40(&m));
        match is_bds_4_0(&m) {
            Some(r) => assert!(r.mcp_selected_altitude == Some(vs::mcp_alt_40(&m)) && r.barometric_pressure_setting == Some(vs::baro_40(&m)), "plausible BDS 4,0: selected altitude and pressure setting decoded"),
            None => assert!(false, "a plausible BDS 4,0 register is decoded"),
        }
        kani::cover!(true, "reach_end");
    }

    //@ob id=C10.reg50.only_if flags=noassert props=C10,C01 tier=quick kind=harness fns=bds/bds_5_0.rs:is_bds_5_0,ehs/bds_5_0.rs:roll_angle_5_0,ehs/bds_5_0.rs:track_angle_5_0,ehs/bds_5_0.rs:track_angle_rate_5_0,ehs/bds_5_0.rs:ground_speed_5_0,ehs/bds_5_0.rs:true_airspeed_5_0 draw=frame28
    //@region all 112-bit frames: decoded as BDS 5,0 only if all five status bits (33,44,56,67,78) are set; then roll = two's complement x 45/256 deg, true track = x 90/512 deg in [0,360), track rate = x 8/256 deg/s (each truncated), GS and TAS = field x 2 kt
    #[kani::proof]
    #[kani::unwind(34)]
    fn c10_reg50_only_if() {
        let m = any_frame28();
        if let Some(r) = is_bds_5_0(&m) {
            assert!(vs::status_50(&m), "BDS 5,0 accepted: all five status bits set");
            if let Some(v) = r.roll_angle {
                assert!(vs::trunc_ok(v, vs::roll_raw_50(&m) as i64 * 45, 256), "roll angle = two's complement field x 45/256 deg (truncated)");
            }
            if let Some(v) = r.track_angle {
                assert!(vs::angle_ok(v, vs::track_raw_50(&m)), "true track = two's complement field x 90/512 deg in [0,360) (truncated)");
            }
            if let Some(v) = r.track_angle_rate {
                assert!(vs::trunc_ok(v, vs::track_rate_raw_50(&m) as i64, 32), "track angle rate = two's complement field x 8/256 deg/s (truncated)");
            }
            if let Some(v) = r.ground_speed {
                assert!(v == vs::gs_50(&m), "ground speed = field x 2 kt");
            }
            if let Some(v) = r.true_airspeed {
                assert!(v == vs::tas_50(&m), "true airspeed = field x 2 kt");
            }
            kani::cover!(true, "accepted");
        }
        kani::cover!(true, "reach_end");
    }

    //@ob id=C10.reg50.converse flags=noassert props=C10,C01 tier=quick kind=harness fns=bds/bds_5_0.rs:is_bds_5_0 draw=frame28
    //@region all 112-bit frames whose MB field is a plausible BDS 5,0 (status bits set, every field non-zero, |roll|<=50, GS<=600, TAS<=500, |GS-TAS|<200) - left AND right turns: decoded as BDS 5,0 with all five values shown
    #[kani::proof]
    #[kani::unwind(34)]
    fn c10_reg50_converse() {
        let m = any_frame28();
        kani::assume(vs::plausible_50(&m));
        match is_bds_5_0(&m) {
            Some(r) => assert!(r.roll_angle.is_some() && r.track_angle.is_some() && r.track_angle_rate.is_some() && r.ground_speed.is_some() && r.true_airspeed.is_some(), "plausible BDS 5,0: all five values decoded"),
            None => assert!(false, "a plausible BDS 5,0 register is decoded (turns in either direction)"),
        }
        kani::cover!(vs::track_rate_raw_50(&m) < 0, "left turn");
        kani::cover!(vs::roll_raw_50(&m) < 0, "left bank");
        kani::cover!(true, "reach_end");
    }

    //@ob id=C10.reg60.only_if flags=noassert props=C10,C01 tier=quick kind=harness fns=bds/bds_6_0.rs:is_bds_6_0,ehs/bds_6_0.rs:magnetic_heading_6_0,ehs/bds_6_0.rs:indicated_airspeed_6_0,ehs/bds_6_0.rs:mach_number_6_0,ehs/bds_6_0.rs:barometric_altitude_rate_6_0,ehs/bds_6_0.rs:internal_vertical_velocity_6_0 draw=frame28
    //@region all 112-bit frames: decoded as BDS 6,0 only if all five status bits (33,45,56,67,78) are set; then heading = two's complement x 90/512 deg in [0,360), IAS = field kt, Mach = field x 0.004, vertical rates = two's complement x 32 ft/min
    #[kani::proof]
    #[kani::unwind(34)]
    fn c10_reg60_only_if() {
        let m = any_frame28();
        if let Some(r) = is_bds_6_0(&m) {
            assert!(vs::status_60(&m), "BDS 6,0 accepted: all five status bits set");
            if let Some(v) = r.magnetic_heading {
                assert!(vs::angle_ok(v, vs::heading_raw_60(&m)), "magnetic heading = two's complement field x 90/512 deg in [0,360) (truncated)");
            }
            if let Some(v) = r.indicated_airspeed {
                assert!(v == vs::ias_60(&m), "IAS = field x 1 kt");
            }
            if let Some(v) = r.mach_number {
                assert!(v == vs::mach_raw_60(&m) as f64 * 0.004, "Mach = field x 0.004");
            }
            if let Some(v) = r.barometric_altitude_rate {
                assert!(v == vs::baro_rate_60(&m), "barometric altitude rate = two's complement field x 32 ft/min");
            }
            if let Some(v) = r.internal_vertical_velocity {
                assert!(v == vs::inertial_rate_60(&m), "inertial vertical velocity = two's complement field x 32 ft/min");
            }
            kani::cover!(true, "accepted");
        }
        kani::cover!(true, "reach_end");
    }

    //@ob id=C10.reg60.converse flags=noassert props=C10,C01 tier=quick kind=harness fns=bds/bds_6_0.rs:is_bds_6_0 draw=frame28
    //@region all 112-bit frames whose MB field is a plausible BDS 6,0 (status bits set, every field non-zero, Mach<=1, |rates|<=6000) - climbs AND descents: decoded as BDS 6,0
    #[kani::proof]
    #[kani::unwind(34)]
    fn c10_reg60_converse() {
        let m = any_frame28();
        kani::assume(vs::plausible_60(&m));
        match is_bds_6_0(&m) {
            Some(r) => assert!(r.magnetic_heading.is_some() && r.indicated_airspeed.is_some() && r.mach_number.is_some() && r.barometric_altitude_rate == Some(vs::baro_rate_60(&m)) && r.internal_vertical_velocity == Some(vs::inertial_rate_60(&m)), "plausible BDS 6,0: all values decoded"),
            None => assert!(false, "a plausible BDS 6,0 register is decoded (climb and descent)"),
        }
        kani::cover!(vs::baro_rate_60(&m) < 0, "descent");
        kani::cover!(true, "reach_end");
    }

    //@ob id=C10.reg17 flags=noassert props=C10,C01 tier=quick kind=harness fns=bds/bds_1_7.rs:is_bds_1_7 draw=frame28
    //@region all 112-bit frames: a BDS 1,7 capability report is recognised iff bit 39 is set and bits 61-88 are zero; it advertises 4,0 / 5,0 / 6,0 by MB bits 9 / 16 / 24 (message bits 41 / 48 / 56)
    #[kani::proof]
    #[kani::unwind(34)]
    fn c10_reg17() {
        let m = any_frame28();
        match is_bds_1_7(&m) {
            Some(c) => {
                assert!(vs::looks_17(&m), "BDS 1,7 recognised only with bit 39 set and bits 61-88 zero");
                assert!(c.bds40 == vs::cap17_bds40(&m) && c.bds50 == vs::cap17_bds50(&m) && c.bds60 == vs::cap17_bds60(&m), "advertised registers = MB bits 9, 16, 24");
            }
            None => assert!(!vs::looks_17(&m), "a capability report is recognised"),
        }
        kani::cover!(true, "reach_end");
    }
}
