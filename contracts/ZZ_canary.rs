//@target src/decoder/utils/calc.rs
//@props *
//@needs L0_calc

#[cfg(kani)]
mod verif_canary {
    use super::*;
    use crate::verif_spec::h::*;

    // Vacuity guard of the whole run: same assumptions as every frame harness, a claim that is
    // false. Must FAIL; if it ever passes, the tool chain is not checking anything -> exit 2.
    //@ob id=ZZ.canary props=* tier=quick expect=fail
    #[kani::proof]
    #[kani::unwind(34)]
    fn canary_must_fail() {
        let m = any_frame28();
        let v = range_value(&m, 1, 5);
        assert!(v == Some(7), "canary: deliberately false claim");
    }
}
