//@target src/decoder/plane/from_squitter.rs
//@props C05,C06,C07,C08,C09,C10,C11,C12,C19
//@needs L2_row
//@assume composition (update path): Plane::update = clock + last_df + update_from_bcast + (update_from_ext iff DF17/18) + (update_from_mode_s iff gate); update_from_ext = last_type_code + exactly one per-type-code arm. Each dispatcher is verified with its callees replaced by ghost recorders (called with these arguments, exactly once, nothing else touched) and each callee is verified on its own; end-to-end whole-step obligations on the un-cut code were written and dropped (they exhaust 28 GB in CBMC), so the composition rests on this argument.

#[cfg(kani)]
mod verif_l2_update {
    use super::*;
    use crate::decoder;
    use crate::decoder::plane::verif_row::*;
    use crate::verif_spec::h::*;

    // ------------------------------------------------------------ recorders for dispatchers
    static mut R_BCAST: u32 = 0;
    static mut R_BCAST_ARG: (*const u32, u32) = (core::ptr::null(), 0);
    fn rec_bcast(_p: &mut Plane, m: &[u32], df: u32) {
        unsafe {
            R_BCAST += 1;
            R_BCAST_ARG = (m.as_ptr(), df);
        }
    }
    static mut R_EXT: u32 = 0;
    static mut R_EXT_ARG: (*const u32, u32) = (core::ptr::null(), 0);
    fn rec_ext(_p: &mut Plane, m: &[u32], df: u32) {
        unsafe {
            R_EXT += 1;
            R_EXT_ARG = (m.as_ptr(), df);
        }
    }
    static mut R_MDS: u32 = 0;
    static mut R_MDS_ARG: (*const u32, u32, bool) = (core::ptr::null(), 0, false);
    fn rec_mds(_p: &mut Plane, m: &[u32], df: u32, relaxed: bool) {
        unsafe {
            R_MDS += 1;
            R_MDS_ARG = (m.as_ptr(), df, relaxed);
        }
    }

    fn keep_all_but_clock(o: &Plane, n: &Plane) {
        keep_identity(o, n);
        keep_altitude(o, n);
        keep_gnss(o, n);
        keep_squawk(o, n);
        keep_callsign(o, n);
        keep_category(o, n);
        keep_ca(o, n);
        keep_cap17(o, n);
        keep_velocity(o, n);
        keep_vrate(o, n);
        keep_heading(o, n);
        keep_cpr(o, n);
        keep_position(o, n);
        keep_surface(o, n);
        keep_status_version(o, n);
        keep_commb_only(o, n);
    }

    //@ob id=L2.update.dispatch flags=noassert props=C10,C11,C12,C05,C06,C09,C01,C19 tier=quick kind=harness fns=plane/from_squitter.rs:Plane::update
    //@region Plane::update for every df value, -R on/off, every row: time stamp = receive time, last DF recorded, broadcast part always, extended-squitter part iff DF17/18, Comm-B part iff (-R or recorded CA > 3) and DF20/21; nothing else touched
    #[kani::proof]
    #[kani::unwind(34)]
    #[kani::stub(chrono::Utc::now, now_rec)]
    #[kani::stub(crate::decoder::plane::Plane::update_from_bcast, rec_bcast)]
    #[kani::stub(crate::decoder::plane::Plane::update_from_ext, rec_ext)]
    #[kani::stub(crate::decoder::plane::Plane::update_from_mode_s, rec_mds)]
    fn l2_update_dispatch() {
        let m = any_frame28();
        let df: u32 = kani::any();
        let relaxed: bool = kani::any();
        let old = any_plane(false);
        let mut new = clone_plane(&old);
        new.update(&m, df, relaxed);
        check_clock(&new);
        assert!(new.last_df == df, "last DF recorded");
        keep_all_but_clock(&old, &new);
        keep_type_code(&old, &new);
        unsafe {
            assert!(R_BCAST == 1 && R_BCAST_ARG == (m.as_ptr(), df), "broadcast fields updated from this frame");
            if df == 17 || df == 18 {
                assert!(R_EXT == 1 && R_EXT_ARG == (m.as_ptr(), df), "DF17/18: extended squitter part applied");
            } else {
                assert!(R_EXT == 0, "not DF17/18: extended squitter part not applied");
            }
            let gate = (relaxed || old.capability.0 > 3) && (df == 20 || df == 21);
            if gate {
                assert!(R_MDS == 1 && R_MDS_ARG == (m.as_ptr(), df, relaxed), "DF20/21 under the gate: Comm-B part applied");
            } else {
                assert!(R_MDS == 0, "C10 gate: no Comm-B decoding unless (-R or recorded capability >= 4) and DF20/21");
            }
        }
        kani::cover!(df == 20 && !relaxed && old.capability.0 > 3, "gate open by capability");
        kani::cover!(true, "reach_end");
    }

    // ------------------------------------------------------------ broadcast part
    fn check_bcast(o: &Plane, n: &Plane, m: &[u32], df: u32) {
        keep_identity(o, n);
        if df == 4 || df == 20 {
            assert!(n.altitude == decoder::altitude(m, df), "DF4/20: altitude = decoded altitude code");
            assert!(n.altitude_source == ' ', "DF4/20: altitude source blank");
        } else {
            keep_altitude(o, n);
        }
        if df == 5 || df == 21 {
            assert!(n.squawk == decoder::squawk(m), "DF5/21: squawk = decoded identity code");
        } else {
            keep_squawk(o, n);
        }
        if df == 11 {
            assert!(n.capability.0 == decoder::get_capability(m), "DF11: transponder capability = CA field");
        } else if df == 17 {
            assert!(n.capability.0 == o.capability.0 || n.capability.0 == decoder::get_capability(m), "DF17: CA capability kept or recorded");
        } else {
            keep_ca(o, n);
        }
        assert!(n.timestamp == o.timestamp && n.last_df == o.last_df, "broadcast part leaves clock fields alone");
        keep_cap17(o, n);
        keep_gnss(o, n);
        keep_callsign(o, n);
        keep_category(o, n);
        keep_velocity(o, n);
        keep_vrate(o, n);
        keep_heading(o, n);
        keep_cpr(o, n);
        keep_position(o, n);
        keep_surface(o, n);
        keep_status_version(o, n);
        keep_type_code(o, n);
        keep_commb_only(o, n);
    }

    //@ob id=L2.update.bcast.14 flags=noassert props=C05,C06,C11,C01,C19 tier=quick kind=harness fns=plane/from_squitter/from_bcast.rs:update_from_bcast draw=frame14
    //@region all 56-bit frames x every df <= 15 x every row: DF4 altitude, DF5 squawk, DF11 CA; everything else unchanged
    #[kani::proof]
    #[kani::unwind(34)]
    fn l2_update_bcast_14() {
        let m = any_frame14();
        let df: u32 = kani::any();
        kani::assume(df <= 15);
        let old = any_plane(false);
        let mut new = clone_plane(&old);
        new.update_from_bcast(&m, df);
        check_bcast(&old, &new, &m, df);
        kani::cover!(df == 4 && new.altitude.is_some(), "DF4 with altitude");
        kani::cover!(true, "reach_end");
    }

    //@ob id=L2.update.bcast.28 flags=noassert props=C05,C06,C11,C01,C19 tier=quick kind=harness fns=plane/from_squitter/from_bcast.rs:update_from_bcast draw=frame28
    //@region all 112-bit frames x every df >= 16 x every row: DF20 altitude, DF21 squawk, DF17 CA (either), everything else unchanged
    #[kani::proof]
    #[kani::unwind(34)]
    fn l2_update_bcast_28() {
        let m = any_frame28();
        let df: u32 = kani::any();
        kani::assume(df >= 16);
        let old = any_plane(false);
        let mut new = clone_plane(&old);
        new.update_from_bcast(&m, df);
        check_bcast(&old, &new, &m, df);
        kani::cover!(df == 21, "DF21");
        kani::cover!(true, "reach_end");
    }

    // ------------------------------------------------------------ extended squitter dispatcher
    static mut R_ARM: u32 = 0; // which arm was called (1,5,9,19,20,31), 0 = none
    static mut R_ARM_CALLS: u32 = 0;
    static mut R_ARM_MSG: *const u32 = core::ptr::null();
    static mut R_ARM_A: u32 = 0;
    static mut R_ARM_B: u32 = 0;
    fn rec_arm(which: u32, m: &[u32], a: u32, b: u32) {
        unsafe {
            R_ARM = which;
            R_ARM_CALLS += 1;
            R_ARM_MSG = m.as_ptr();
            R_ARM_A = a;
            R_ARM_B = b;
        }
    }
    fn rec_1_4(_p: &mut Plane, m: &[u32], tc: u32, st: u32) {
        rec_arm(1, m, tc, st)
    }
    fn rec_5_8(_p: &mut Plane, m: &[u32], tc: u32) {
        rec_arm(5, m, tc, 0)
    }
    fn rec_9_18(_p: &mut Plane, m: &[u32], tc: u32, df: u32) {
        rec_arm(9, m, tc, df)
    }
    fn rec_19(_p: &mut Plane, m: &[u32], st: u32) {
        rec_arm(19, m, st, 0)
    }
    fn rec_20_22(_p: &mut Plane, m: &[u32]) {
        rec_arm(20, m, 0, 0)
    }
    fn rec_31(_p: &mut Plane, m: &[u32]) {
        rec_arm(31, m, 0, 0)
    }

    //@ob id=L2.update.ext.dispatch flags=noassert props=C07,C08,C09,C11,C01,C19 tier=quick kind=harness fns=plane/from_squitter/from_ext.rs:update_from_ext draw=frame28
    //@region update_from_ext for all 112-bit frames x every row: last type code recorded; exactly the handler of the frame's type code runs (1-4, 5-8, 9-18, 19, 20-22, 31; none otherwise) with this frame's type/subtype; nothing else touched
    #[kani::proof]
    #[kani::unwind(34)]
    #[kani::stub(crate::decoder::plane::Plane::update_from_ext_1_4, rec_1_4)]
    #[kani::stub(crate::decoder::plane::Plane::update_from_ext_5_8, rec_5_8)]
    #[kani::stub(crate::decoder::plane::Plane::update_from_ext_9_18, rec_9_18)]
    #[kani::stub(crate::decoder::plane::Plane::update_from_ext_19, rec_19)]
    #[kani::stub(crate::decoder::plane::Plane::update_from_ext_20_22, rec_20_22)]
    #[kani::stub(crate::decoder::plane::Plane::update_from_ext_31, rec_31)]
    fn l2_update_ext_dispatch() {
        let m = any_frame28();
        let df: u32 = kani::any();
        let old = any_plane(false);
        let mut new = clone_plane(&old);
        new.update_from_ext(&m, df);
        let (tc, st) = decoder::get_message_type(&m);
        assert!(new.last_type_code == tc, "last type code recorded");
        keep_all_but_clock(&old, &new);
        assert!(new.timestamp == old.timestamp && new.last_df == old.last_df, "clock fields untouched");
        unsafe {
            let want = match tc {
                1..=4 => 1,
                5..=8 => 5,
                9..=18 => 9,
                19 => 19,
                20..=22 => 20,
                31 => 31,
                _ => 0,
            };
            if want == 0 {
                assert!(R_ARM_CALLS == 0, "type code without a handler: nothing decoded");
            } else {
                assert!(R_ARM_CALLS == 1 && R_ARM == want && R_ARM_MSG == m.as_ptr(), "exactly the handler of this type code runs on this frame");
                match want {
                    1 => assert!(R_ARM_A == tc && R_ARM_B == st, "TC1-4 handler gets type code and category"),
                    5 => assert!(R_ARM_A == tc, "TC5-8 handler gets the type code"),
                    9 => assert!(R_ARM_A == tc && R_ARM_B == df, "TC9-18 handler gets type code and df"),
                    19 => assert!(R_ARM_A == st, "TC19 handler gets the subtype"),
                    _ => {}
                }
            }
        }
        kani::cover!(tc == 19, "TC19");
        kani::cover!(true, "reach_end");
    }

    // ------------------------------------------------------------ extended squitter arms
    fn arm_keep_common(o: &Plane, n: &Plane) {
        keep_identity(o, n);
        keep_squawk(o, n);
        keep_ca(o, n);
        keep_cap17(o, n);
        keep_commb_only(o, n);
        keep_type_code(o, n);
        assert!(n.timestamp == o.timestamp && n.last_df == o.last_df, "clock fields untouched");
    }

    //@ob id=L2.update.ext.tc1_4 flags=noassert props=C07,C11,C01,C19 tier=quick kind=harness fns=plane/from_squitter/from_ext.rs:update_from_ext_1_4 draw=frame28
    //@region TC1-4 handler, all 112-bit frames x every (type code, category) x every row: callsign = decoded identification, category = (TC, CA); nothing else
    #[kani::proof]
    #[kani::unwind(34)]
    #[kani::stub(crate::decoder::adsb::ais::ais, ais_rec)]
    fn l2_update_ext_tc1_4() {
        let m = any_frame28();
        let tc: u32 = kani::any();
        let st: u32 = kani::any();
        let old = any_plane(false);
        let mut new = clone_plane(&old);
        new.update_from_ext_1_4(&m, tc, st);
        assert!(is_new_callsign(&new, &m), "TC1-4: callsign = identification decoded from this frame");
        assert!(new.category == (tc, st), "TC1-4: emitter category = (type code, category)");
        arm_keep_common(&old, &new);
        keep_altitude(&old, &new);
        keep_gnss(&old, &new);
        keep_velocity(&old, &new);
        keep_vrate(&old, &new);
        keep_heading(&old, &new);
        keep_cpr(&old, &new);
        keep_position(&old, &new);
        keep_surface(&old, &new);
        keep_status_version(&old, &new);
        kani::cover!(true, "reach_end");
    }

    fn position_arm(surface: bool) {
        let m = any_frame28();
        let tc: u32 = kani::any();
        if surface {
            kani::assume(tc >= 5 && tc <= 8);
        } else {
            kani::assume(tc >= 9 && tc <= 18);
        }
        let old = any_plane(false);
        let mut new = clone_plane(&old);
        if surface {
            new.update_from_ext_5_8(&m, tc);
            assert!(new.ground_movement == decoder::ground_movement(&m), "TC5-8: ground movement");
            assert!(new.altitude.is_none(), "TC5-8 surface position: altitude blanked");
            assert!(new.altitude_source == '\u{2070}', "TC5-8: altitude source mark");
            assert!(new.track == decoder::ground_track(&m), "TC5-8: track = ground track field");
            assert!(new.track_source == ' ' || new.track_source == '\u{2070}', "TC5-8: track source mark");
            assert!(new.grspeed == old.grspeed, "frame clause: ground speed unchanged");
            assert!(new.surveillance_status == old.surveillance_status, "frame clause: surveillance status unchanged");
        } else {
            let df: u32 = if kani::any() { 17 } else { 18 }; // DF18 (TIS-B/ADS-R) takes the same handler on this path
            new.update_from_ext_9_18(&m, tc, df);
            assert!(new.altitude == decoder::altitude(&m, df), "TC9-18: altitude = altitude code decoded for this DF");
            assert!(new.altitude_source == ' ', "TC9-18: altitude source blank");
            assert!(new.surveillance_status == decoder::surveillance_status(&m), "TC9-18: surveillance status");
            keep_velocity(&old, &new);
            keep_surface(&old, &new);
        }
        assert!(new.adsb_version == old.adsb_version, "frame clause: ADS-B version unchanged");
        check_cpr_store(&old, &new, &m, tc);
        keep_position(&old, &new); // only update_position (stand-in here, own obligation L2.position.rule) may move the position
        arm_keep_common(&old, &new);
        keep_gnss(&old, &new);
        keep_callsign(&old, &new);
        keep_category(&old, &new);
        keep_vrate(&old, &new);
        keep_heading(&old, &new);
        kani::cover!(true, "reach_end");
    }

    //@ob id=L2.update.ext.tc5_8 flags=noassert props=C08,C11,C01,C19 tier=quick kind=harness fns=plane/from_squitter/from_ext.rs:update_from_ext_5_8,plane/from_squitter/from_ext.rs:update_cpr,plane/update_position.rs:update_position draw=frame28
    //@region TC5-8 handler, all frames x every row incl. symbolic CPR slots: surface fields set, altitude blanked, CPR slot stored and stamped with the row time stamp, then a position update is requested for (type code, parity)
    #[kani::proof]
    #[kani::unwind(34)]
    #[kani::stub(crate::decoder::plane::Plane::update_position, pos_rec)]
    fn l2_update_ext_tc5_8() {
        position_arm(true);
    }

    //@ob id=L2.update.ext.tc9_18 flags=noassert props=C05,C08,C11,C01,C19 tier=quick kind=harness fns=plane/from_squitter/from_ext.rs:update_from_ext_9_18,plane/from_squitter/from_ext.rs:update_cpr,plane/update_position.rs:update_position draw=frame28
    //@region TC9-18 handler, all frames x every row incl. symbolic CPR slots: altitude, surveillance status, CPR slot stored and stamped with the row time stamp, then a position update is requested for (type code, parity)
    #[kani::proof]
    #[kani::unwind(34)]
    #[kani::stub(crate::decoder::plane::Plane::update_position, pos_rec)]
    fn l2_update_ext_tc9_18() {
        position_arm(false);
    }

    //@ob id=L2.update.ext.tc19 flags=noassert props=C09,C11,C01,C19 tier=quick kind=harness fns=plane/from_squitter/from_ext.rs:update_from_ext_19 draw=frame28
    //@region TC19 handler, all frames x every subtype x every row: vertical rate; subtype 1/2 track + ground speed from this frame (x4 unit for subtype 2); subtype 3/4 heading; GNSS altitude = barometric + delta
    #[kani::proof]
    #[kani::unwind(34)]
    #[kani::stub(crate::decoder::ehs::track_and_groundspeed, tgs_rec)]
    fn l2_update_ext_tc19() {
        let m = any_frame28();
        let st: u32 = kani::any();
        let old = any_plane(false);
        let mut new = clone_plane(&old);
        new.update_from_ext_19(&m, st);
        assert!(new.vrate == decoder::vertical_rate(&m), "TC19: vertical rate = decoded field");
        assert!(new.vrate_source == ' ', "TC19: vertical rate source blank");
        match (old.altitude, decoder::altitude_delta(&m)) {
            (Some(a), Some(d)) => assert!(new.altitude_gnss == Some((a as i32 + d) as u32), "TC19: GNSS altitude = barometric + delta"),
            _ => assert!(new.altitude_gnss == old.altitude_gnss, "TC19 without altitude or delta: GNSS altitude unchanged"),
        }
        assert!(new.altitude == old.altitude, "TC19: altitude unchanged");
        if st == 1 || st == 2 {
            unsafe {
                assert!(G_TGS_CALLS == 1 && G_TGS_MSG == m.as_ptr() && G_TGS_SS == (st == 2), "TC19 subtype 1/2: velocity decoded from this frame with the subtype's unit");
                assert!(new.track == G_TGS_RET.0, "TC19 subtype 1/2: track = decoded track");
                assert!(new.grspeed == G_TGS_RET.1, "TC19 subtype 1/2: ground speed = decoded ground speed");
            }
            assert!(new.track_source == if st == 1 { '\u{2081}' } else { '\u{2082}' }, "TC19 subtype 1/2: track source mark");
            keep_heading(&old, &new);
            assert!(new.altitude_source == old.altitude_source, "altitude source unchanged");
        } else if st == 3 || st == 4 {
            assert!(new.heading == decoder::heading(&m), "TC19 subtype 3/4: heading");
            assert!(new.heading_source == '\u{2083}', "TC19 subtype 3/4: heading source mark");
            assert!(new.altitude_source == '"', "TC19 subtype 3/4: altitude source mark");
            keep_velocity(&old, &new);
        } else {
            keep_velocity(&old, &new);
            keep_heading(&old, &new);
            assert!(new.altitude_source == old.altitude_source, "altitude source unchanged");
        }
        arm_keep_common(&old, &new);
        keep_callsign(&old, &new);
        keep_category(&old, &new);
        keep_cpr(&old, &new);
        keep_position(&old, &new);
        keep_surface(&old, &new);
        keep_status_version(&old, &new);
        kani::cover!(st == 1, "subsonic");
        kani::cover!(true, "reach_end");
    }

    //@ob id=L2.update.ext.tc20_31 flags=noassert props=C11,C01,C19 tier=quick kind=harness fns=plane/from_squitter/from_ext.rs:update_from_ext_20_22,plane/from_squitter/from_ext.rs:update_from_ext_31 draw=frame28
    //@region TC20-22 and TC31 handlers, all frames x every row: GNSS altitude + surveillance status; ADS-B version; nothing else
    #[kani::proof]
    #[kani::unwind(34)]
    fn l2_update_ext_tc20_31() {
        let m = any_frame28();
        let old = any_plane(false);
        let mut new = clone_plane(&old);
        let which: bool = kani::any();
        if which {
            new.update_from_ext_20_22(&m);
            assert!(new.altitude_gnss == decoder::altitude_gnss(&m), "TC20-22: GNSS altitude");
            assert!(new.surveillance_status == decoder::surveillance_status(&m), "TC20-22: surveillance status");
            assert!(new.adsb_version == old.adsb_version, "frame clause: ADS-B version unchanged");
        } else {
            new.update_from_ext_31(&m);
            assert!(new.adsb_version == decoder::version(&m), "TC31: ADS-B version");
            assert!(new.surveillance_status == old.surveillance_status, "frame clause: surveillance status unchanged");
            keep_gnss(&old, &new);
        }
        arm_keep_common(&old, &new);
        keep_altitude(&old, &new);
        keep_callsign(&old, &new);
        keep_category(&old, &new);
        keep_velocity(&old, &new);
        keep_vrate(&old, &new);
        keep_heading(&old, &new);
        keep_cpr(&old, &new);
        keep_position(&old, &new);
        keep_surface(&old, &new);
        kani::cover!(true, "reach_end");
    }
}
